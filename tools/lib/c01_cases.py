"""C01 case generator: derive x shape x generics x naming x attribute x flavour  ->  Rust item source (with the real
derive, and a control twin without it) plus, where the header is modelled, the `family` terms of the Coq model.

Only shapes / attributes the documentation of a derive (impl/doc/*.md, tests/*.rs) lists as supported are produced;
field types are chosen so that the documented trait requirements hold (helper types `crate::sup::P<X>` and
`crate::sup::Void` implement every trait involved, unconditionally)."""
import re

from .common import coq_str

# ------------------------------------------------------------------ generic parameter sets

def lt(n, *bounds):
    return {"k": "lt", "n": n, "b": list(bounds), "d": None, "cty": ""}


def ty(n, *bounds, d=None):
    return {"k": "ty", "n": n, "b": list(bounds), "d": d, "cty": ""}


def cn(n, cty="usize", d=None):
    return {"k": "const", "n": n, "b": [], "d": d, "cty": cty}


GSETS = {
    "none": {"params": [], "where": []},
    "T": {"params": [ty("T")], "where": []},
    "T:Clone": {"params": [ty("T", "Clone")], "where": []},
    "T=i32": {"params": [ty("T", d="i32")], "where": []},
    "T,U": {"params": [ty("T", "Clone"), ty("U", "Clone", "Copy")], "where": []},
    "'a": {"params": [lt("'a")], "where": []},
    "'a,'b:'a": {"params": [lt("'a"), lt("'b", "'a")], "where": []},
    "N": {"params": [cn("N")], "where": []},
    "N=3": {"params": [cn("N", d="3")], "where": []},
    "N,M:bool": {"params": [cn("N"), cn("M", "bool", d="true")], "where": []},
    "'a,T,N": {"params": [lt("'a"), ty("T", "'a", "Clone"), cn("N")], "where": []},
    "N,T": {"params": [cn("N"), ty("T")], "where": []},
    "T where": {"params": [ty("T")], "where": ["T: Clone"]},
    "'a,'b,'c,T where": {"params": [lt("'a"), lt("'b"), lt("'c", "'a", "'b"), ty("T")],
                        "where": ["T: 'a + Clone", "'b: 'a"]},
    "T,U=T,N=2 where": {"params": [ty("T", "Clone"), ty("U", "Clone", d="T"), cn("N", d="2")],
                        "where": ["U: Copy", "T: Iterator", "T::Item: Clone"]},
    "T:HasA": {"params": [ty("T", "crate::sup::HasA")], "where": []},
    # bounds only in the where-clause, and required: `Need<T>` is declared `struct Need<X: Req>`, `T::NAME` needs `Named`,
    # `[u8; N]: Default` constrains a const parameter (no type parameter at all: the fmt derives infer nothing)
    "T where Req": {"params": [ty("T")], "where": ["T: crate::sup::Req + crate::sup::Named"], "uni": "crate::sup::Need<T>"},
    "N where": {"params": [cn("N")], "where": ["[u8; N]: Default"]},
    "'a,T,N where only": {"params": [lt("'a"), ty("T"), cn("N")], "where": ["T: 'a + crate::sup::Req", "[u8; N]: Default"],
                          "uni": "crate::sup::P<(&'a crate::sup::Need<T>, [u8; N], )>"},
    "I": {"params": [ty("I")], "where": []},
    "Output,Target": {"params": [ty("Output", "Clone"), ty("Target")], "where": []},
    "Item,Err,Rhs": {"params": [ty("Item"), ty("Err"), ty("Rhs")], "where": ["Err: Clone"]},
    "'a:'static,E,X=42": {"params": [lt("'a", "'static"), ty("E", "Clone"), cn("X", d="42")], "where": []},
}
GSET_NAMES = list(GSETS)

TOK = re.compile(r"'[A-Za-z_]\w*|r#\w+|[A-Za-z_]\w*")


def strip_ws(t):
    return re.sub(r"\s+", "", t)


def free_names(text, g):
    names = {p["n"] for p in g["params"]}
    out = []
    for m in TOK.findall(text):
        if m in names and m not in out:
            out.append(m)
    return out


def render_generics(g, impl=False):
    if not g["params"]:
        return ""
    ps = g["params"]
    if impl:
        ps = [p for p in ps if p["k"] == "lt"] + [p for p in ps if p["k"] != "lt"]
    out = []
    for p in ps:
        if p["k"] == "const":
            t = "const %s: %s" % (p["n"], p["cty"])
        else:
            t = p["n"] + ((": " + " + ".join(p["b"])) if p["b"] else "")
        if p["d"] is not None and not impl:
            t += " = " + p["d"]
        out.append(t)
    return "<" + ", ".join(out) + ">"


def render_ty_args(g):
    ps = [p for p in g["params"] if p["k"] == "lt"] + [p for p in g["params"] if p["k"] != "lt"]
    return ("<" + ", ".join(p["n"] for p in ps) + ">") if ps else ""


def render_where(g):
    return (" where " + ", ".join(g["where"])) if g["where"] else ""


# ------------------------------------------------------------------ Coq terms of the model

def c_str(t):
    """white-space free text as a term of the model's `str`; ASCII goes through the model's `s` (string literal ->
    code points), which coqc parses far faster than a list of numerals"""
    t = strip_ws(t)
    if all(32 < ord(ch) < 127 for ch in t):
        return '(s "%s")' % t.replace('"', '""')
    return coq_str(t)


def c_list(xs):
    return "[" + "; ".join(xs) + "]"


def c_u(text, g):
    return "(U %s %s)" % (c_str(text), c_list(c_str(n) for n in free_names(text, g)))


def c_generics(g):
    ps = []
    for p in g["params"]:
        kind = {"lt": "KLt", "ty": "KTy", "const": "KConst"}[p["k"]]
        bs = c_list("BUser " + c_u(b, g) for b in p["b"])
        d = "None" if p["d"] is None else "(Some %s)" % c_str(p["d"])
        ps.append("(P %s %s %s %s %s)" % (kind, c_str(p["n"]), bs, c_str(p["cty"]), d))
    wh = c_list("PUser " + c_u(w, g) for w in g["where"])
    return "(G %s %s)" % (c_list(ps), wh)


SEL = {"owned": "SOwned", "ref": "SRef", "ref_mut": "SMut"}

# ------------------------------------------------------------------ naming

NAMING = {
    "plain": {"ty": "Ty", "f": ["a", "b", "c"], "v": ["Va", "Vb", "Vc"]},
    "raw": {"ty": "r#type", "f": ["r#fn", "r#match", "r#struct"], "v": ["r#fn", "r#struct", "r#trait"]},
    # variants named after associated types / prelude items the expansions mention, fields named after their locals
    "assoc1": {"ty": "Output", "f": ["value", "src", "rhs"], "v": ["Output", "Error", "Target"]},
    "assoc2": {"ty": "Result", "f": ["iter", "idx", "request"], "v": ["Item", "IntoIter", "Err"]},
    "assoc3": {"ty": "Item", "f": ["val", "f", "other"], "v": ["Ok", "Some", "None"]},
    "assoc4": {"ty": "Target", "f": ["__0", "__1", "__derive_more_f"], "v": ["Err", "Output", "Self_"]},
}
ASSOC_NAMINGS = ["assoc1", "assoc2", "assoc3", "assoc4"]

# ------------------------------------------------------------------ item representation


class Item:
    def __init__(self, kind, name, g):
        self.kind = kind            # 'struct' | 'enum'
        self.name = name
        self.g = g
        self.attrs = []             # helper attributes of derive_more (container level)
        self.keep_attrs = []        # attributes that stay in the control twin (#[repr], #[allow], #[derive(Debug)])
        self.fkind = None           # struct: 'unit' | 'tuple' | 'named'
        self.fields = []            # struct: list of Field
        self.variants = []          # enum: list of Variant
        self.extra = []             # extra items rendered after (manual impls), present in both twins

    def all_fields(self):
        if self.kind == "struct":
            return list(self.fields)
        return [f for v in self.variants for f in v.fields]


class Field:
    def __init__(self, name, ty):
        self.name = name            # None for tuple fields
        self.ty = ty
        self.attrs = []
        self.keep_attrs = []


class Variant:
    def __init__(self, name, fkind, fields, disc=None):
        self.name = name
        self.fkind = fkind
        self.fields = fields
        self.disc = disc
        self.attrs = []
        self.keep_attrs = []


def render_fields(fkind, fields, control, top):
    def one(f):
        a = "".join(x + " " for x in f.keep_attrs + ([] if control else f.attrs))
        vis = "pub " if top else ""
        return a + vis + (f.name + ": " if f.name else "") + f.ty
    if fkind == "unit":
        return ""
    if fkind == "tuple":
        return "(" + ", ".join(one(f) for f in fields) + ")"
    return " { " + ", ".join(one(f) for f in fields) + " }"


def render_item(it, derives, control=False, with_extra=True):
    lines = []
    if not control and derives:
        lines.append("#[derive(%s)]" % ", ".join(derives))
    for a in it.keep_attrs + ([] if control else it.attrs):
        lines.append(a)
    head = "pub %s %s%s" % (it.kind, it.name, render_generics(it.g))
    wh = render_where(it.g)
    if it.kind == "struct":
        body = render_fields(it.fkind, it.fields, control, True)
        if it.fkind == "named":
            lines.append(head + wh + body)
        else:
            lines.append(head + body + wh + ";")
    else:
        vs = []
        for v in it.variants:
            a = "".join(x + " " for x in v.keep_attrs + ([] if control else v.attrs))
            vs.append(a + v.name + render_fields(v.fkind, v.fields, control, False) +
                      ((" = " + v.disc) if v.disc else ""))
        lines.append(head + wh + " { " + ", ".join(vs) + " }")
    if with_extra:
        lines += it.extra
    return "\n".join(lines)


# ------------------------------------------------------------------ field types

def uni(g):
    """a type mentioning every lifetime/type parameter (and usize consts); implements every trait involved"""
    if "uni" in g:
        return g["uni"]
    parts = []
    for p in g["params"]:
        if p["k"] == "lt":
            parts.append("&%s ()" % p["n"])
        elif p["k"] == "ty":
            parts.append(p["n"])
        elif p["cty"] == "usize":
            parts.append("[u8; %s]" % p["n"])
    return "crate::sup::P<(%s)>" % "".join(x + ", " for x in parts)


VOID = "crate::sup::Void"

BASE = {
    "op": ["i32"], "any": ["i32", "String", "Vec<u8>"], "debug": ["i32", "String"], "fromstr": ["i32"],
    "intoiter": ["Vec<i32>"], "index": ["Vec<i32>"], "fwd": ["Box<i32>", "Vec<i32>"], "errsrc": ["crate::sup::E0"],
    "Display": ["i32", "String"], "Binary": ["i32"], "Octal": ["i32"], "LowerHex": ["i32"], "UpperHex": ["u8"],
    "LowerExp": ["i32", "f64"], "UpperExp": ["f64"], "Pointer": ["*const i32", "Box<i32>"],
}
FMT_TRAITS = ["Display", "Binary", "Octal", "LowerHex", "UpperHex", "LowerExp", "UpperExp", "Pointer"]
REFS_OK = {"any", "debug", "Display", "Pointer"}
WRAP = {"any": ["Vec<%s>", "Option<%s>"], "debug": ["Vec<%s>"], "intoiter": ["Vec<%s>"], "index": ["Vec<%s>"],
        "fwd": ["Box<%s>", "Vec<%s>"]}
BARE_OK = {"op", "any", "debug", "fromstr", "index", "errsrc"} | set(FMT_TRAITS)


def pick_types(ctx, n, cls, distinct=False, cover=True):
    """n field types of class `cls` that together mention every lifetime and type parameter of the generics"""
    g, rng = ctx.g, ctx.rng
    lts = [p["n"] for p in g["params"] if p["k"] == "lt"]
    tys = [p["n"] for p in g["params"] if p["k"] == "ty"]
    cands = list(BASE[cls])
    for t in tys:
        if cls in BARE_OK:
            cands.append(t)
        for w in WRAP.get(cls, []):
            cands.append(w % t)
        if cls in REFS_OK:
            for l in lts:
                cands.append("&%s %s" % (l, t))
    if cls in REFS_OK:
        for l in lts:
            cands.append("&%s i32" % l)
    cands.append(uni(g))
    out = []
    for _ in range(n):
        pool = [c for c in cands if c not in out] if distinct else cands
        out.append(rng.choice(pool or cands))
    if cover and n > 0:
        need = set(lts + tys)
        used = set()
        for t in out:
            used |= set(free_names(t, g))
        if not need <= used:
            # make one field mention everything (the last one, unless that breaks distinctness)
            out[-1] = uni(g)
    if ctx.unin and not ctx.unin_done and n > 0:
        # one field of uninhabited type, chosen so that the others still mention every parameter
        need = set(lts + tys) if cover else set()
        for i in range(n - 1, -1, -1):
            used = set()
            for j, t in enumerate(out):
                if j != i:
                    used |= set(free_names(t, g))
            if need <= used and (not distinct or VOID not in out):
                out[i] = VOID
                ctx.unin_done = True
                break
    return out


# ------------------------------------------------------------------ every way a field type can mention a type parameter

# `crate::sup::Cnd<X>` implements the formatting traits, Error, AsRef/AsMut only when `X: sup::Mark`, which is never
# provable for a type parameter: a field of such a type type-checks in the expansion iff the derive put the bound on the
# field type into the where-clause, i.e. iff its scan of the field type found the parameter.  {T} = a type parameter,
# {A} = a lifetime parameter with `T: 'a` declared.
TYFORMS = {
    "arg": "crate::sup::Cnd<{T}>",
    "ref": "crate::sup::Cnd<&{A} {T}>",
    "ref-mut": "crate::sup::Cnd<&{A} mut {T}>",
    "ref-slice": "crate::sup::Cnd<&{A} [{T}]>",
    "array": "crate::sup::Cnd<[{T}; 2]>",
    "slice": "crate::sup::Cnd<[{T}]>",
    "tuple": "crate::sup::Cnd<({T}, i32)>",
    "tuple1": "crate::sup::Cnd<({T},)>",
    "ptr-const": "crate::sup::Cnd<*const {T}>",
    "ptr-mut": "crate::sup::Cnd<*mut {T}>",
    "fn-input": "crate::sup::Cnd<fn({T})>",
    "fn-input2": "crate::sup::Cnd<fn(i32, {T}) -> i32>",
    "fn-output": "crate::sup::Cnd<fn() -> {T}>",
    "fn-nested": "crate::sup::Cnd<fn(fn({T}))>",
    "fn-sugar-input": "crate::sup::Cnd<dyn Fn({T}) -> i32>",
    "fn-sugar-output": "crate::sup::Cnd<dyn Fn() -> {T}>",
    "dyn-arg": "crate::sup::Cnd<dyn crate::sup::TrObj<{T}>>",
    "dyn-arg-plus": "crate::sup::Cnd<dyn crate::sup::TrObj<{T}> + Send>",
    "dyn-second-bound": "crate::sup::Cnd<dyn Send + crate::sup::TrObj<{T}>>",
    "dyn-assoc": "crate::sup::Cnd<dyn crate::sup::Src<Out = {T}>>",
    "dyn-assoc-std": "crate::sup::Cnd<dyn Iterator<Item = {T}>>",
    "box-dyn-assoc": "Box<crate::sup::Cnd<dyn crate::sup::Src<Out = {T}>>>",
    "qself-trait-arg": "<crate::sup::H as crate::sup::TrA<{T}>>::X",
    "qself-self": "<{T} as crate::sup::HasA>::A",
    "assoc": "{T}::A",
    "nested": "crate::sup::Cnd<Vec<Option<{T}>>>",
    "nested-box": "Box<crate::sup::Cnd<Box<{T}>>>",
    "later-segment": "crate::sup::Cnd<core::option::Option<{T}>>",
    "paren": "(crate::sup::Cnd<{T}>)",
    "paren-inner": "crate::sup::Cnd<({T})>",
    "second-arg": "crate::sup::Cnd2<i32, {T}>",
}
NEEDS_HASA = {"qself-self", "assoc"}


NO_BOUND_ATTRS = {"fmt-nogeneric", "lit-variants", "fmt-assoc-const", "fmt-const", "skip-generic"}


def tyform(name, g, rng=None):
    """the field type of form `name` over generics g, or None when g cannot express it"""
    tys = [p for p in g["params"] if p["k"] == "ty"]
    if not tys:
        return None
    t = tys[0]
    if name in NEEDS_HASA and "crate::sup::HasA" not in t["b"]:
        return None
    tpl = TYFORMS[name]
    a = None
    if "{A}" in tpl:
        lts = [p["n"] for p in g["params"] if p["k"] == "lt"]
        ok = [l for l in lts if l in t["b"] or any(w.replace(" ", "").startswith(t["n"] + ":") and l in w for w in g["where"])]
        if not ok:
            return None
        a = ok[0]
    return tpl.replace("{T}", t["n"]).replace("{A}", a or "")


def compatible_gsets(attr):
    """generic parameter sets on which an attribute variant is expressible (None = all)"""
    if attr in NO_BOUND_ATTRS:
        # the derive infers no bound of its own here: the user's where-clause is all the impl has, so use generics sets
        # that have one (and need it)
        out = [gn for gn, g in GSETS.items() if g["where"]]
        if attr == "fmt-assoc-const":
            out = ["T where Req"]
        if attr == "fmt-const":
            out = [gn for gn in out if any(p["k"] == "const" and p["cty"] == "usize" for p in GSETS[gn]["params"])]
        return out
    if not attr.startswith("tyform"):
        return None
    name = attr.split(":", 1)[1]
    kind = attr.split(":", 1)[0]
    out = []
    for gn, g in GSETS.items():
        t = tyform(name, g)
        if t is None:
            continue
        need = {p["n"] for p in g["params"] if p["k"] in ("lt", "ty")}
        if kind in ("tyform", "tyform-src") and not need <= set(free_names(t, g)):
            continue        # single-field shapes: the field has to mention every parameter
        out.append(gn)
    return out


# ------------------------------------------------------------------ a generated case


class Case:
    def __init__(self, derive, shape, gname, naming, attr, flavour):
        self.derive = derive
        self.shape = shape
        self.gname = gname
        self.naming = naming
        self.attr = attr
        self.flavour = flavour
        self.item = None
        self.companions = []       # other derive_more derives needed for the item to make sense
        self.std_derives = []
        self.families = None       # list of Coq `family` terms (strings with a {g} placeholder free), or None
        self.fam_hook = None       # how to complete the families from the real expansion (hash-set ordered parts)
        self.unordered = False     # compare the impl list as a multiset

    def key(self):
        return (self.derive, self.shape, self.gname, self.naming, self.attr, self.flavour)

    def sig(self):
        """identifies the item independently of the derive under test"""
        return render_item(self.item, [], control=True)

    def source(self, control=False):
        ds = []
        if not control:
            ds = [self.derive] + self.companions
        src = render_item(self.item, ds, control)
        if self.std_derives:
            src = "#[derive(%s)]\n" % ", ".join("::core::fmt::" + d for d in self.std_derives) + src
        if ds:
            # as in every example of the documentation (`use derive_more::Add;`): the re-export carries the derive macro
            # and the trait of the same name
            src = "use derive_more::{%s};\n" % ", ".join(ds) + src
        return src

    def expand_source(self):
        """the item as handed to the in-process expander (only derive_more's helper attributes matter)"""
        return render_item(self.item, [], control=False, with_extra=False)


class Ctx:
    def __init__(self, g, nm, rng):
        self.g = g
        self.nm = nm
        self.rng = rng
        self.unin = False          # one field is to get an uninhabited type
        self.unin_done = False


def mk_struct(ctx, fkind, types):
    it = Item("struct", ctx.nm["ty"], ctx.g)
    it.fkind = fkind
    for i, t in enumerate(types):
        it.fields.append(Field(ctx.nm["f"][i] if fkind == "named" else None, t))
    if ctx.nm["ty"].startswith("r#"):
        it.keep_attrs.append("#[allow(non_camel_case_types)]")
    return it


def mk_enum(ctx, variants):
    """variants: list of (fkind, [types])"""
    it = Item("enum", ctx.nm["ty"], ctx.g)
    for i, (fk, types) in enumerate(variants):
        fs = [Field(ctx.nm["f"][j] if fk == "named" else None, t) for j, t in enumerate(types)]
        it.variants.append(Variant(ctx.nm["v"][i], fk, fs))
    if ctx.nm["ty"].startswith("r#") or ctx.nm["v"][0].startswith("r#"):
        it.keep_attrs.append("#[allow(non_camel_case_types)]")
    return it


STRUCT0 = {"n0": "named", "t0": "tuple"}


def has_lt_or_ty(g):
    return any(p["k"] in ("lt", "ty") for p in g["params"])


STRUCT_SHAPES = {"unit": ("unit", 0), "t1": ("tuple", 1), "t2": ("tuple", 2), "n1": ("named", 1), "n2": ("named", 2)}


def struct_of(ctx, shape, cls, distinct=False):
    if shape in STRUCT0:
        # `struct S {}` / `struct S();`
        if has_lt_or_ty(ctx.g):
            return None
        return mk_struct(ctx, STRUCT0[shape], [])
    fk, n = STRUCT_SHAPES[shape]
    if n == 0 and has_lt_or_ty(ctx.g):
        return None
    return mk_struct(ctx, fk, pick_types(ctx, n, cls, distinct))


def enum_of(ctx, shape, cls):
    """eu: unit variants only; e1: unit + single-field variants; em: tuple1, named2, unit; et: tuple1, tuple2, unit;
    en: tuple1, named2 (no unit variant); es: one tuple1 variant; esu: one unit variant; e0: no variant at all"""
    if shape == "e0":
        if has_lt_or_ty(ctx.g):
            return None
        return mk_enum(ctx, [])
    if shape == "esu":
        if has_lt_or_ty(ctx.g):
            return None
        return mk_enum(ctx, [("unit", [])])
    if shape == "es":
        return mk_enum(ctx, [("tuple", pick_types(ctx, 1, cls))])
    if shape == "eu":
        if has_lt_or_ty(ctx.g):
            return None
        it = mk_enum(ctx, [("unit", []), ("unit", [])])
        if ctx.rng.random() < 0.3:
            it.variants[ctx.rng.randrange(2)].disc = "7"      # explicit discriminant on a field-less enum
        return it
    if shape == "e1":
        ts = pick_types(ctx, 2, cls, distinct=True)
        return mk_enum(ctx, [("tuple", [ts[0]]), ("named", [ts[1]]), ("unit", [])])
    ts = pick_types(ctx, 3, cls, distinct=True)
    if shape == "et":
        return mk_enum(ctx, [("tuple", [ts[0]]), ("tuple", [ts[1], ts[2]]), ("unit", [])])
    if shape == "en":
        return mk_enum(ctx, [("tuple", [ts[0]]), ("named", [ts[1], ts[2]])])
    return mk_enum(ctx, [("tuple", [ts[0]]), ("named", [ts[1], ts[2]]), ("unit", [])])


def field_access(it, i):
    f = it.fields[i]
    return f.name if f.name else str(i)


def snake(tr):
    return re.sub(r"(?<!^)([A-Z])", r"_\1", tr).lower()


FMT_SPEC = {"Display": "", "Binary": ":b", "Octal": ":o", "LowerHex": ":x", "UpperHex": ":X", "LowerExp": ":e",
            "UpperExp": ":E", "Pointer": ":p", "Debug": ":?"}

# forms of a source type for derive(Error): utils.rs is_type_parameter_used_in_type (since 8a39960 it descends arrays,
# slices, groups, parentheses, raw pointers, tuples, fn pointers, trait objects, associated-type bindings and
# parenthesised path arguments as well as paths and references).  Left out: forms with a non-'static lifetime (a source
# must be 'static) and `qself-trait-arg` (`<H as TrA<T>>::X: 'static` does not give rustc `T: 'static`: E0310, an
# artefact of the helper projection, not of the derive).
ERROR_SOURCE_FORMS = ["arg", "nested", "nested-box", "later-segment", "second-arg", "qself-self", "assoc",
                      "array", "slice", "tuple", "tuple1", "ptr-const", "ptr-mut", "fn-input", "fn-input2",
                      "fn-output", "fn-nested", "fn-sugar-input", "fn-sugar-output", "dyn-arg", "dyn-arg-plus",
                      "dyn-second-bound", "dyn-assoc", "dyn-assoc-std", "box-dyn-assoc", "paren", "paren-inner"]

ADD = ["Add", "Sub", "BitAnd", "BitOr", "BitXor"]
ADD_ASSIGN = [x + "Assign" for x in ADD]
MUL = ["Mul", "Div", "Rem", "Shr", "Shl"]
MUL_ASSIGN = [x + "Assign" for x in MUL]
NOT = ["Not", "Neg"]

# derive -> list of (shape, attr) variants it documents
VARIANTS = {}
for d in ADD:
    VARIANTS[d] = [(s_, "none") for s_ in ("t1", "t2", "n1", "n2", "em", "eu")]
for d in NOT:
    VARIANTS[d] = [(s_, "none") for s_ in ("t1", "t2", "n1", "n2", "em", "eu")]
for d in ADD_ASSIGN:
    VARIANTS[d] = [(s_, "none") for s_ in ("t1", "t2", "n1", "n2")]
for d in MUL:
    VARIANTS[d] = [(s_, "none") for s_ in ("t1", "t2", "n1", "n2")] + \
                  [(s_, "forward") for s_ in ("t1", "n2", "em")]
for d in MUL_ASSIGN:
    VARIANTS[d] = [(s_, "none") for s_ in ("t1", "t2", "n1", "n2")] + [(s_, "forward") for s_ in ("t1", "n2")]
for d in ("Sum", "Product"):
    VARIANTS[d] = [(s_, "none") for s_ in ("t1", "t2", "n1", "n2")]
for d in ("AsRef", "AsMut"):
    VARIANTS[d] = [("t1", "none"), ("n1", "none"), ("t1", "forward"), ("n1", "forward"), ("n2", "field"),
                   ("t2", "field"), ("n2", "skip"), ("n1", "types"), ("t1", "types-generic"), ("n2", "field-forward")]
VARIANTS["Constructor"] = [(s_, "none") for s_ in ("unit", "t1", "t2", "n1", "n2")]
VARIANTS["Debug"] = [(s_, "none") for s_ in ("unit", "t1", "t2", "n1", "n2", "em", "eu")] + \
                    [("n2", "fmt-field"), ("t2", "skip"), ("n2", "fmt"), ("em", "fmt-variant"), ("t1", "bound")]
for d in FMT_TRAITS:
    VARIANTS[d] = [("unit", "none"), ("t1", "none"), ("n1", "none"), ("eu", "none"), ("e1", "none"),
                   ("t2", "fmt"), ("n2", "fmt"), ("em", "fmt-variant"), ("t1", "fmt"), ("t1", "bound")]
SINGLE = [("es", "none"), ("esu", "none")]
for d in ADD + NOT:
    VARIANTS[d] += SINGLE + [("en", "none")]
VARIANTS["Constructor"] += [("n0", "none"), ("t0", "none")]
VARIANTS["Debug"] += SINGLE + [("e0", "none"), ("n0", "none"), ("t0", "none"), ("en", "none"), ("e1", "none")]
for d in FMT_TRAITS:
    # shared (enum-level) formats: wrapping via {_variant}, wrapping with {_variant} as an argument too, default format
    VARIANTS[d] += [("ew", "shared-wrap"), ("ew", "shared-wrap-arg"), ("ew", "shared-wrap-all-own"), ("ed", "shared-default"),
                    ("ed", "shared-default-all"), ("es", "none"), ("e0", "none"), ("es", "shared-wrap"), ("n0", "none"),
                    ("t0", "none"), ("ew", "bound-enum")]
for d in FMT_TRAITS:
    VARIANTS[d] += [("t1", "fmt-debug")]
VARIANTS["Display"] += [("eu", "rename_all"), ("eu", "rename_all-variant"), ("unit", "fmt-unit"), ("esu", "none")]
VARIANTS["Deref"] = [("t1", "none"), ("n1", "none"), ("t1", "forward"), ("n1", "forward"), ("t2", "marker"),
                     ("n2", "marker")]
VARIANTS["Deref"] += [("t2", "ignore-other"), ("n2", "ignore-other")]
VARIANTS["DerefMut"] = list(VARIANTS["Deref"])
VARIANTS["Error"] = [("unit", "none"), ("t1", "none"), ("n1", "source-name"), ("n2", "source-name"), ("t2", "none"),
                     ("n2", "source-attr"), ("t1", "not-source"), ("em", "none"), ("eu", "none"), ("n1", "none")]
VARIANTS["Error"] += [("en", "none"), ("en", "variant-ignore"), ("em", "variant-ignore"), ("en", "variant-ignore-all-but-one"),
                      ("en", "all-ignored"), ("n2", "field-ignore"), ("em", "explicit-source"), ("en", "not-source"),
                      ("e0", "none"), ("es", "none"), ("esu", "none"), ("en", "enum-ignore"), ("n0", "none"), ("t0", "none"),
                      ("em", "field-ignore")]
VARIANTS["From"] = [("unit", "none"), ("t1", "none"), ("t2", "none"), ("n1", "none"), ("n2", "none"),
                    ("t1", "forward"), ("t2", "forward"), ("n2", "forward"), ("t1", "types"), ("em", "none"),
                    ("em", "variant-forward"), ("em", "variant-from"), ("em", "variant-skip")]
VARIANTS["From"] += [("es", "none"), ("en", "none"), ("t0", "none"), ("n0", "none")]
VARIANTS["FromStr"] = [("t1", "none"), ("n1", "none"), ("eu", "none"), ("esu", "none")]
VARIANTS["Index"] = [("t1", "none"), ("n1", "none"), ("t2", "marker"), ("n2", "marker"), ("t2", "ignore-other"),
                     ("n2", "ignore-other")]
VARIANTS["IndexMut"] = list(VARIANTS["Index"])
VARIANTS["Into"] = [("unit", "none"), ("t1", "none"), ("t2", "none"), ("n1", "none"), ("n2", "none"),
                    ("t1", "refs"), ("n2", "refs"), ("t1", "types"), ("t2", "skip"), ("n2", "field")]
VARIANTS["Into"] += [("t0", "none"), ("n0", "none"), ("t1", "wrapped"), ("n2", "wrapped-generic"), ("n2", "field-wrapped"),
                     ("t2", "wrapped-tuple")]
VARIANTS["IntoIterator"] = [("t1", "none"), ("n1", "none"), ("t1", "refs"), ("n1", "refs"), ("t2", "marker"),
                            ("n2", "marker-refs"), ("t2", "ignore-other")]
VARIANTS["IsVariant"] = [("em", "none"), ("eu", "none"), ("em", "ignore"), ("et", "none")]
for d in ("Unwrap", "TryUnwrap"):
    # variants with named fields are refused on purpose ("cannot unwrap anonymous records"); the documentation speaks of
    # variants "with fields (a, b, c, ...)"
    VARIANTS[d] = [("et", "none"), ("eu", "none"), ("et", "ignore"), ("et", "refs")]
VARIANTS["IsVariant"] += SINGLE + [("em", "ignore-middle"), ("en", "none"), ("e0", "none")]
for d in ("Unwrap", "TryUnwrap"):
    VARIANTS[d] += SINGLE + [("et", "ignore-middle"), ("et", "refs-variant")]
VARIANTS["TryFrom"] = [("eu", "repr"), ("eu", "repr-u8"), ("em", "repr"), ("eu", "repr-disc")]
VARIANTS["TryFrom"] += [("esu", "repr"), ("es", "repr"), ("en", "repr")]
VARIANTS["TryInto"] = [("em", "none"), ("em", "refs"), ("em", "ignore"), ("e1", "none"), ("es", "none"), ("esu", "none"),
                       ("em", "ignore-nonunit"), ("en", "none"), ("es", "refs")]

for d_ in FMT_TRAITS + ["Debug"]:
    VARIANTS[d_] += [("n2", "fmt-nogeneric"), ("em", "lit-variants"), ("n2", "fmt-const")]
VARIANTS["Display"] += [("n2", "fmt-assoc-const")]
VARIANTS["Debug"] += [("n2", "fmt-assoc-const"), ("n2", "skip-generic")]
for f_ in TYFORMS:
    # the scans of field types for type parameters: fmt `contains_generics`, AsRef `GenericsSearch::any_in`,
    # Error `is_type_parameter_used_in_type`
    VARIANTS["Debug"] += [("t1", "tyform:" + f_), ("n2", "tyform-fmt:" + f_)]
    VARIANTS["Display"] += [("t1", "tyform:" + f_), ("n2", "tyform-fmt:" + f_), ("e1", "tyform-enum:" + f_)]
    VARIANTS["AsRef"] += [("t1", "tyform-asref:" + f_)]
    VARIANTS["AsMut"] += [("n2", "tyform-asref:" + f_)]
    if f_ in ERROR_SOURCE_FORMS:
        VARIANTS["Error"] += [("t1", "tyform-src:" + f_), ("n2", "tyform-srcn:" + f_)]
for i_, d in enumerate(FMT_TRAITS[1:]):
    fs_ = list(TYFORMS)
    for j_ in range(5):
        f_ = fs_[(i_ * 5 + j_ * 7) % len(fs_)]
        VARIANTS[d] += [("t1", "tyform:" + f_), ("n2", "tyform-fmt:" + f_)]

# spelling variation: the same attribute with trailing commas ("ta": at every list level, "ti": inside the named groups
# only - an inner trailing comma followed by an outer item -, "to": after the last outer item only)
for d_ in list(VARIANTS):
    extra_ = []
    for (sh_, at_) in VARIANTS[d_]:
        if at_ == "none" or at_.startswith("tyform"):
            continue
        extra_.append((sh_, at_ + "~ta"))
        if d_ in ("Into", "TryInto", "Unwrap", "TryUnwrap", "IntoIterator", "AsRef", "AsMut", "From", "Error", "Display",
                  "Debug"):
            extra_ += [(sh_, at_ + "~ti"), (sh_, at_ + "~to")]
    VARIANTS[d_] += extra_

ALL_DERIVES = list(VARIANTS)
FLAVOURS = ["plain", "deprecated", "uninhabited"]


KEYWORD_ONLY = re.compile(r"#\[\w+\(\s*\w+\s*\)\]$")


def respell(text, mode):
    """trailing commas in the argument lists of a helper attribute: "to" after the last item of the attribute's own list,
    "ti" after the last item of every named group inside it (`owned(..)`, `ref(..)`, `bound(..)`, ...), "ta" both.
    String literals are left alone; bare parentheses (tuple / parenthesised types, where a comma changes the type) too."""
    if KEYWORD_ONLY.match(text):
        # `#[from(forward,)]`, `#[into(skip,)]`: a lone keyword followed by a comma is read as a one-element type list.
        # Coordinator's decision: this is C17's subject (recorded there as keyword-trailing-comma-*), it stays out of
        # C01's generator; a lone keyword is never respelled
        return text
    if re.match(r"#\[\w+\(\s*(bound\(|rename_all\b)", text) and mode in ("to", "ta"):
        # `#[display(bound(T: Clone),)]` and `#[display(rename_all = "kebab-case",)]` are refused ("unexpected token")
        # although `#[display("..", a,)]` and `bound(T: Clone,)` are accepted.  Coordinator's decision: C17's subject
        # (recorded there), the outer comma after these two option forms stays out of C01's generator; the inner comma
        # is still exercised
        mode = "ti" if mode == "ta" else None
        if mode is None:
            return text
    out = []
    stack = []          # (named, nonempty-so-far, last significant char)
    i, n = 0, len(text)
    last = ""
    prev_ident = False
    while i < n:
        ch = text[i]
        if ch == '"':
            j = i + 1
            while j < n and text[j] != '"':
                if text[j] == "\\":
                    j += 1
                j += 1
            out.append(text[i:j + 1])
            i = j + 1
            last, prev_ident = '"', False
            continue
        if ch == "(":
            stack.append([prev_ident, False, ""])
            out.append(ch)
            last, prev_ident = "(", False
            i += 1
            continue
        if ch == ")":
            named, nonempty, _ = stack.pop()
            depth = len(stack) + 1
            want = (depth == 1 and mode in ("to", "ta")) or (depth >= 2 and named and mode in ("ti", "ta"))
            if want and last not in ("(", ","):
                out.append(",")
            out.append(ch)
            last, prev_ident = ")", False
            i += 1
            continue
        out.append(ch)
        if not ch.isspace():
            last = ch
            prev_ident = ch.isalnum() or ch == "_"
        i += 1
    return "".join(out)


def build(derive, shape, gname, naming, attr, flavour, rng):
    """-> Case or None (combination not expressible, e.g. a unit struct with a type parameter)"""
    g = GSETS[gname]
    if NAMING[naming]["ty"] in [p["n"] for p in g["params"]]:
        return None             # the type would be shadowed by its own parameter
    ctx = Ctx(g, NAMING[naming], rng)
    ctx.unin = flavour == "uninhabited"
    base, _, spelling = attr.partition("~")
    c = Case(derive, shape, gname, naming, base, flavour)
    it = BUILDERS[group_of(derive)](c, ctx)
    if it is None:
        return None
    c.attr = attr
    c.item = it
    if spelling:
        changed = False
        for holder in [it] + it.all_fields() + list(it.variants):
            new = [respell(a, spelling) for a in holder.attrs]
            changed = changed or new != holder.attrs
            holder.attrs = new
        if not changed:
            return None
    # ---- flavour
    if flavour == "deprecated":
        if it.kind == "struct":
            if not it.fields:
                return None
            it.fields[0].keep_attrs.append("#[deprecated]")
        else:
            if not it.variants:
                return None
            it.variants[0].keep_attrs.append("#[deprecated]")
    elif flavour == "uninhabited":
        if not ctx.unin_done:
            return None
    return c


def group_of(d):
    if d in ADD or d in NOT:
        return "addlike"
    if d in ADD_ASSIGN:
        return "addassign"
    if d in MUL:
        return "mullike"
    if d in MUL_ASSIGN:
        return "mulassign"
    if d in ("Sum", "Product"):
        return "sum"
    if d in ("AsRef", "AsMut"):
        return "asref"
    if d in FMT_TRAITS:
        return "fmt"
    if d in ("Deref", "DerefMut"):
        return "deref"
    if d in ("Index", "IndexMut"):
        return "index"
    if d in ("IsVariant", "Unwrap", "TryUnwrap"):
        return "variants"
    return d.lower()


def any_of(ctx, shape, cls, distinct=False):
    if shape in STRUCT_SHAPES or shape in STRUCT0:
        return struct_of(ctx, shape, cls, distinct)
    return enum_of(ctx, shape, cls)


def u_(t, g):
    return c_u(t, g)


# ---- builders: set c.companions / c.families, return the item

def b_addlike(c, ctx):
    it = any_of(ctx, c.shape, "op")
    c.families = ["FAddLike %s" % c_str(c.derive)]
    return it


def b_addassign(c, ctx):
    it = any_of(ctx, c.shape, "op")
    c.families = ["FAddAssignLike %s" % c_str(c.derive)]
    return it


def b_mullike(c, ctx):
    it = any_of(ctx, c.shape, "op")
    if it is None:
        return None
    if c.attr == "forward":
        it.attrs.append("#[%s(forward)]" % snake(c.derive))
        c.families = ["FAddLike %s" % c_str(c.derive)]
    else:
        n = len(it.fields)
        c.fam_hook = ("mul", "FMulLike", c.derive, n)
    return it


def b_mulassign(c, ctx):
    it = any_of(ctx, c.shape, "op")
    if it is None:
        return None
    if c.attr == "forward":
        it.attrs.append("#[%s(forward)]" % snake(c.derive))
        c.families = ["FAddAssignLike %s" % c_str(c.derive)]
    else:
        c.fam_hook = ("mul", "FMulAssignLike", c.derive, len(it.fields))
    return it


def b_sum(c, ctx):
    it = any_of(ctx, c.shape, "op")
    if it is None:
        return None
    if c.derive == "Sum":
        c.companions = ["Add"]
        c.families = ["FSum %s %s" % (c_str("Sum"), c_str("Add"))]
    else:
        c.companions = ["Mul"]
        it.attrs.append("#[mul(forward)]")
        c.families = ["FSum %s %s" % (c_str("Product"), c_str("Mul"))]
    return it


def b_asref(c, ctx):
    g = ctx.g
    an = snake(c.derive)
    tr = c_str(c.derive)
    tys = [p["n"] for p in g["params"] if p["k"] == "ty"]
    if c.attr == "none":
        it = struct_of(ctx, c.shape, "any")
        c.families = ["FAsRef %s (AsPlain %s)" % (tr, u_(it.fields[0].ty, g))]
    elif c.attr == "forward":
        fk, _ = STRUCT_SHAPES[c.shape]
        t = pick_types(ctx, 1, "fwd")[0]
        it = mk_struct(ctx, fk, [t])
        it.attrs.append("#[%s(forward)]" % an)
        c.families = ["FAsRef %s (AsBlanket %s)" % (tr, u_(t, g))]
    elif c.attr in ("field", "skip", "field-forward"):
        fk, _ = STRUCT_SHAPES[c.shape]
        if c.attr == "field":
            # two impls of the same trait: the targets must not unify, so no bare parameter / wrapper of one
            ts = ctx.rng.sample(["i32", "String", "Vec<u8>"], 2)
            if has_lt_or_ty(g):
                ts[1] = uni(g)
        else:
            ts = pick_types(ctx, 2, "fwd" if c.attr == "field-forward" else "any", distinct=True)
        if ts[0] == ts[1]:
            return None
        it = mk_struct(ctx, fk, ts)
        if c.attr == "field":
            for f in it.fields:
                f.attrs.append("#[%s]" % an)
            c.families = ["FAsRef %s (AsPlain %s)" % (tr, u_(t, g)) for t in ts]
        elif c.attr == "skip":
            it.fields[1].attrs.append("#[%s(skip)]" % an)
            c.families = ["FAsRef %s (AsPlain %s)" % (tr, u_(ts[0], g))]
        else:
            it.fields[0].attrs.append("#[%s(forward)]" % an)
            c.families = ["FAsRef %s (AsBlanket %s)" % (tr, u_(ts[0], g))]
    elif c.attr == "types":
        # no generics involved in field or target type: autoref specialisation, generics untouched
        fk, _ = STRUCT_SHAPES[c.shape]
        if has_lt_or_ty(g):
            # second field carries the parameters
            it = mk_struct(ctx, "named", ["String", uni(g)])
            it.fields[0].attrs.append("#[%s(str, String)]" % an)
        else:
            it = mk_struct(ctx, fk, ["String"])
            it.attrs.append("#[%s(str, String)]" % an)
        c.families = ["FAsRef %s (AsPlain %s)" % (tr, u_("str", g)), "FAsRef %s (AsPlain %s)" % (tr, u_("String", g))]
    elif c.attr.startswith("tyform-asref:"):
        if ctx.unin:
            return None
        t = tyform(c.attr.split(":", 1)[1], g)
        if t is None:
            return None
        need = {p["n"] for p in g["params"] if p["k"] in ("lt", "ty")} - set(free_names(t, g))
        if c.shape == "t1":
            if need:
                return None
            it = mk_struct(ctx, "tuple", [t])
            it.attrs.append("#[%s(str)]" % an)
        else:
            it = mk_struct(ctx, "named", [t, uni(g)])
            it.fields[0].attrs.append("#[%s(str)]" % an)
        c.families = ["FAsRef %s (AsForwarded %s %s)" % (tr, u_(t, g), u_("str", g))]
    elif c.attr == "types-generic":
        if not tys:
            return None
        t = tys[0]
        need = {p["n"] for p in g["params"] if p["k"] in ("lt", "ty")} - {t}
        if need:
            it = mk_struct(ctx, "tuple", ["Vec<%s>" % t, uni(g)])
            it.fields[0].attrs.append("#[%s([%s])]" % (an, t))
        else:
            it = mk_struct(ctx, "tuple", ["Vec<%s>" % t])
            it.attrs.append("#[%s([%s])]" % (an, t))
        c.families = ["FAsRef %s (AsForwarded %s %s)" % (tr, u_("Vec<%s>" % t, g), u_("[%s]" % t, g))]
    else:
        return None
    return it


def b_constructor(c, ctx):
    c.families = ["FInherent"]
    return struct_of(ctx, c.shape, "any")


def fmt_args_for(it_fields, spec, named):
    if named:
        return '"%s", %s' % (" ".join("{%s}" % spec for _ in it_fields), ", ".join(f.name for f in it_fields))
    return '"%s"' % " ".join("{_%d%s}" % (i, spec) for i in range(len(it_fields)))


def b_fmt_common(c, ctx, trait, an, cls):
    g = ctx.g

    spec = FMT_SPEC[trait]
    tys = [p["n"] for p in g["params"] if p["k"] == "ty"]
    if c.attr == "none":
        it = any_of(ctx, c.shape, cls)
    elif c.attr == "fmt":
        it = struct_of(ctx, c.shape, cls)
        if it is None:
            return None
        it.attrs.append("#[%s(%s)]" % (an, fmt_args_for(it.fields, spec, it.fkind == "named")))
    elif c.attr == "fmt-variant":
        it = enum_of(ctx, "em", cls)
        if it is None:
            return None
        v = it.variants[1]
        v.attrs.append("#[%s(%s)]" % (an, fmt_args_for(v.fields, spec, True)))
        if trait != "Debug":
            it.variants[2].attrs.append('#[%s("unit")]' % an)
    elif c.attr == "fmt-field":
        it = struct_of(ctx, c.shape, cls)
        it.fields[0].attrs.append('#[%s("{}", 1)]' % an)
    elif c.attr == "skip":
        it = struct_of(ctx, c.shape, cls)
        it.fields[1].attrs.append("#[%s(skip)]" % an)
    elif c.attr == "bound":
        if not tys:
            return None
        it = struct_of(ctx, c.shape, cls)
        it.attrs.append("#[%s(bound(%s: Clone))]" % (an, tys[0]))
    elif c.attr in ("shared-wrap", "shared-wrap-arg", "shared-wrap-all-own", "bound-enum") and c.shape in ("ew", "es"):
        # enum-level format wrapping each variant's own (given or inferred) output through {_variant}
        if c.shape == "es":
            it = enum_of(ctx, "es", cls)
            if tys and not ctx.unin:
                it.variants[0].fields[0].ty = tys[0] if len(tys) == 1 and not [p for p in g["params"] if p["k"] == "lt"] \
                    else it.variants[0].fields[0].ty
        else:
            ts = pick_types(ctx, 3, cls)
            if tys and ts[0] != VOID:
                ts[0] = tys[0]          # the delegating variant holds a bare type parameter
                need = {p["n"] for p in g["params"] if p["k"] in ("lt", "ty")}
                if not need <= set(free_names(" ".join(ts), g)):
                    ts[1 if ts[2] == VOID else 2] = uni(g)
            it = mk_enum(ctx, [("tuple", [ts[0]]), ("named", [ts[1], ts[2]]), ("unit", [])])
            v = it.variants[1]
            v.attrs.append("#[%s(%s)]" % (an, fmt_args_for(v.fields, spec, True)))
            it.variants[2].attrs.append('#[%s("unit")]' % an)
            if c.attr == "shared-wrap-all-own":
                it.variants[0].attrs.append('#[%s("{_0%s}")]' % (an, spec))
        if c.attr == "bound-enum":
            if not tys:
                return None
            it.attrs.append("#[%s(bound(%s: Clone))]" % (an, tys[0]))
        elif c.attr == "shared-wrap-arg":
            it.attrs.append('#[%s("Variant: {_variant} & {}", _variant)]' % an)
        else:
            it.attrs.append('#[%s("Variant: {_variant}")]' % an)
    elif c.attr in ("shared-default", "shared-default-all") and c.shape == "ed":
        # enum-level format without {_variant}: the default for variants that have none of their own
        ts = pick_types(ctx, 3, cls)
        it = mk_enum(ctx, [("tuple", [ts[0]]), ("tuple", [ts[1]]), ("tuple", [ts[2]])])
        if c.attr == "shared-default":
            it.variants[1].attrs.append('#[%s("own {_0%s}")]' % (an, spec))
        it.attrs.append('#[%s("Default: {_0%s} & {%s}", _0)]' % (an, spec, spec))
    elif c.attr in ("rename_all", "rename_all-variant"):
        it = enum_of(ctx, "eu", cls)
        if it is None:
            return None
        it.attrs.append('#[%s(rename_all = "kebab-case")]' % an)
        if c.attr == "rename_all-variant":
            it.variants[1].attrs.append('#[%s(rename_all = "SCREAMING_SNAKE_CASE")]' % an)
    elif c.attr.startswith("tyform"):
        kind, name = c.attr.split(":", 1)
        if ctx.unin:
            return None
        t = tyform(name, g)
        if t is None:
            return None
        if kind == "tyform":
            # one field, formatted by delegation
            if not {p["n"] for p in g["params"] if p["k"] in ("lt", "ty")} <= set(free_names(t, g)):
                return None
            it = mk_struct(ctx, "tuple", [t])
        elif kind == "tyform-fmt":
            it = mk_struct(ctx, "named", [t, uni(g)])
            it.attrs.append('#[%s("<{%s}>", %s)]' % (an, spec, it.fields[0].name))
        else:
            it = mk_enum(ctx, [("tuple", [t]), ("named", [uni(g)]), ("unit", [])])
            it.variants[1].attrs.append('#[%s("other")]' % an)
    elif c.attr in NO_BOUND_ATTRS:
        # shapes for which the derive has nothing to add to the where-clause
        if ctx.unin:
            return None
        if c.attr == "fmt-nogeneric":
            it = mk_struct(ctx, "named", ["i32", uni(g)])
            it.attrs.append('#[%s("<{%s}>", %s)]' % (an, ":?" if trait == "Debug" else (":x" if trait == "Pointer" else spec),
                                                   it.fields[0].name))
        elif c.attr == "skip-generic":
            if trait != "Debug":
                return None
            it = mk_struct(ctx, "named", ["i32", uni(g)])
            it.fields[1].attrs.append("#[debug(skip)]")
        elif c.attr == "lit-variants":
            it = mk_enum(ctx, [("unit", []), ("tuple", [uni(g)]), ("named", ["i32"])])
            it.variants[0].attrs.append('#[%s("on")]' % an)
            it.variants[1].attrs.append('#[%s("custom")]' % an)
            it.variants[2].attrs.append('#[%s("plain")]' % an)
        elif c.attr == "fmt-assoc-const":
            if g.get("uni") != "crate::sup::Need<T>":
                return None
            it = mk_struct(ctx, "named", ["i32", "::core::marker::PhantomData<T>"])
            it.attrs.append('#[%s("{} {}", %s, T::NAME)]' % (an, it.fields[0].name))
            if trait not in ("Display", "Debug"):
                return None
        else:
            cs = [p["n"] for p in g["params"] if p["k"] == "const" and p["cty"] == "usize"]
            if not cs or trait == "Pointer":
                return None
            it = mk_struct(ctx, "named", ["[u8; %s]" % cs[0], uni(g)])
            it.attrs.append('#[%s("{%s}", %s)]' % (an, ":?" if trait == "Debug" else spec, cs[0]))
    elif c.attr == "fmt-debug":
        # another formatting trait inside the literal: the bound must follow the placeholder, not the derived trait
        it = struct_of(ctx, c.shape, "debug")
        if it is None:
            return None
        it.attrs.append('#[%s("{_0:?} and {:?}", _0)]' % an)
    elif c.attr == "fmt-unit":
        it = struct_of(ctx, "unit", cls)
        if it is None:
            return None
        it.attrs.append('#[%s("just a unit")]' % an)
    else:
        return None
    if it is None:
        return None
    if trait not in ("Display", "Debug") and it.kind == "enum":
        # implicit formatting of unit variants exists for Display only
        for v in it.variants:
            if v.fkind == "unit" and not v.attrs:
                v.attrs.append('#[%s("unit")]' % an)
    c.fam_hook = ("fmt", trait)
    return it


def b_fmt(c, ctx):
    return b_fmt_common(c, ctx, c.derive, snake(c.derive), c.derive)


def b_debug(c, ctx):
    return b_fmt_common(c, ctx, "Debug", "debug", "debug")


def b_deref(c, ctx):
    g = ctx.g
    mut_ = c.derive == "DerefMut"
    ans = ["deref"] + (["deref_mut"] if mut_ else [])
    if mut_:
        c.companions = ["Deref"]
    tr = c_str(c.derive)
    if c.attr == "none":
        it = struct_of(ctx, c.shape, "any")
        c.families = ["FDeref %s None" % tr]
    elif c.attr == "forward":
        fk, _ = STRUCT_SHAPES[c.shape]
        t = pick_types(ctx, 1, "fwd")[0]
        it = mk_struct(ctx, fk, [t])
        for a in ans:
            it.attrs.append("#[%s(forward)]" % a)
        c.families = ["FDeref %s (Some %s)" % (tr, u_(t, g))]
    elif c.attr == "ignore-other":
        it = struct_of(ctx, c.shape, "any")
        for a in ans:
            it.fields[0].attrs.append("#[%s(ignore)]" % a)
        c.families = ["FDeref %s None" % tr]
    else:
        it = struct_of(ctx, c.shape, "any")
        for a in ans:
            it.fields[1].attrs.append("#[%s]" % a)
        c.families = ["FDeref %s None" % tr]
    return it


def error_display_impl(it):
    g = it.g
    return ("impl%s ::core::fmt::Display for %s%s%s { fn fmt(&self, f: &mut ::core::fmt::Formatter<'_>) -> "
            "::core::fmt::Result { f.write_str(\"e\") } }" %
            (render_generics(g, impl=True), it.name, render_ty_args(g), render_where(g)))


def b_error(c, ctx):
    g = ctx.g
    lts = [p["n"] for p in g["params"] if p["k"] == "lt"]
    tys = [p["n"] for p in g["params"] if p["k"] == "ty"]

    def src_ty():
        # a source must be `Error + 'static`: a concrete error or a bare type parameter (the derive adds the bounds)
        return ctx.rng.choice(["crate::sup::E0"] + tys)

    def rest_ty(exclude):
        need = set(lts + tys) - set(free_names(exclude, g))
        return uni(g) if need else ctx.rng.choice(["i32", "String", uni(g)])

    if c.attr.startswith("tyform-src"):
        if ctx.unin:
            return None
        t = tyform(c.attr.split(":", 1)[1], g)
        if t is None or lts:
            return None
        if c.shape == "t1":
            if set(tys) - set(free_names(t, g)):
                return None
            it = mk_struct(ctx, "tuple", [t])
        else:
            it = mk_struct(ctx, "named", [t, uni(g)])
            it.fields[0].name = "source"
        # std's derive(Debug) would bound the parameters, not the field type: write Debug by hand as well
        it.extra.append(error_display_impl(it).replace("::core::fmt::Display for", "::core::fmt::Debug for"))
        it.extra.append(error_display_impl(it))
        c.fam_hook = ("error",)
        return it
    if c.shape in ("unit", "eu"):
        it = any_of(ctx, c.shape, "any")
    elif c.shape == "t1":
        if lts or len(tys) > 1:
            if c.attr != "not-source":
                return None
            it = mk_struct(ctx, "tuple", [uni(g)])
        else:
            it = mk_struct(ctx, "tuple", [tys[0] if tys else src_ty()])
        if c.attr == "not-source":
            it.fields[0].attrs.append("#[error(not(source))]")
    elif c.shape == "n1":
        if c.attr == "source-name":
            if lts or len(tys) > 1:
                return None
            it = mk_struct(ctx, "named", [tys[0] if tys else src_ty()])
            it.fields[0].name = "source"
        else:
            it = mk_struct(ctx, "named", [rest_ty("")])
    elif c.shape == "n2":
        s_ = src_ty()
        it = mk_struct(ctx, "named", [s_, rest_ty(s_)])
        if c.attr in ("source-name", "field-ignore"):
            it.fields[0].name = "source"
        else:
            it.fields[0].attrs.append("#[error(source)]")
    elif c.shape == "t2":
        it = mk_struct(ctx, "tuple", ["i32", rest_ty("")])
    elif c.shape in ("n0", "t0", "e0", "esu"):
        it = any_of(ctx, c.shape, "any")
    elif c.shape == "es":
        it = mk_enum(ctx, [("tuple", [(tys[0] if tys and not lts and len(tys) == 1 else None) or
                                      (src_ty() if not (lts or tys) else None) or uni(g)])])
        if it.variants[0].fields[0].ty == uni(g) and (lts or tys):
            it.variants[0].fields[0].attrs.append("#[error(not(source))]")
    elif c.shape in ("en", "em"):
        # V0(src), V1 { source: src, b }, [V2(src) | unit]
        s_ = src_ty()
        vs = [("tuple", [s_]), ("named", [s_, rest_ty(s_)])]
        if c.shape == "em":
            vs.append(("unit", []))
        elif c.attr.startswith("variant-ignore") or c.attr == "all-ignored":
            vs.append(("tuple", [src_ty()]))
        it = mk_enum(ctx, vs)
        it.variants[1].fields[0].name = "source"
        ig = "#[error(ignore)]"
        if c.attr == "variant-ignore":
            # one ignored variant, every other variant has a source
            it.variants[ctx.rng.choice([0, 1, 2]) if c.shape == "en" else ctx.rng.choice([0, 1])].attrs.append(ig)
        elif c.attr == "variant-ignore-all-but-one":
            keep = ctx.rng.randrange(3)
            for i, v in enumerate(it.variants):
                if i != keep:
                    v.attrs.append(ig)
        elif c.attr == "all-ignored":
            for v in it.variants:
                v.attrs.append(ig)
        elif c.attr == "enum-ignore":
            it.attrs.append(ig)
        elif c.attr == "explicit-source":
            it.variants[1].fields[0].name = ctx.nm["f"][0]
            it.variants[1].fields[0].attrs.append("#[error(source)]")
        elif c.attr == "not-source":
            it.variants[0].fields[0].attrs.append("#[error(not(source))]")
        elif c.attr == "field-ignore":
            it.variants[1].fields[0].attrs.append(ig)
        elif c.attr != "none":
            return None
    else:
        return None
    if c.shape == "n2" and c.attr == "field-ignore":
        it.fields[0].attrs = ["#[error(ignore)]"]
    if it is None:
        return None
    c.std_derives = ["Debug"]
    it.extra.append(error_display_impl(it))
    c.fam_hook = ("error",)
    return it


def b_from(c, ctx):
    g = ctx.g
    if c.shape in STRUCT0:
        it = struct_of(ctx, c.shape, "any")
        c.families = ["FFrom (TTuple RNo [])"]
        return it
    if c.shape in ("es", "en"):
        for _ in range(12):
            it = enum_of(ctx, c.shape, "any")
            if it.variants[0].fields[0].ty not in [p["n"] for p in g["params"]] or c.shape == "es":
                break
        else:
            return None
        c.families = ["FFrom (TTuple RNo %s)" % c_list(u_(f.ty, g) for f in v.fields) for v in it.variants]
        return it
    if c.shape in STRUCT_SHAPES:
        if c.attr == "types":
            if has_lt_or_ty(g):
                return None
            it = mk_struct(ctx, "tuple", ["i32"])
            it.attrs.append("#[from(i8, i16)]")
            c.families = ["FFrom (TUser RNo %s)" % u_(t, g) for t in ("i8", "i16")]
            return it
        if c.attr == "forward" and STRUCT_SHAPES[c.shape][1] == 1:
            # `impl<F> From<F> for S<T> where T: From<F>` overlaps with core's `impl<X> From<X> for X` when the only field
            # is a bare parameter (coherence, nothing the derive could do): concrete or wrapped field types only
            if ctx.unin:
                return None
            it = mk_struct(ctx, STRUCT_SHAPES[c.shape][0], [uni(g) if has_lt_or_ty(g) else ctx.rng.choice(["i32", "String"])])
        else:
            it = struct_of(ctx, c.shape, "any")
        if it is None:
            return None
        ts = [f.ty for f in it.fields]
        if c.attr == "forward":
            it.attrs.append("#[from(forward)]")
            c.families = ["FFromForward %s" % c_list(u_(t, g) for t in ts)]
        else:
            c.families = ["FFrom (TTuple RNo %s)" % c_list(u_(t, g) for t in ts)]
        return it
    for _ in range(12):
        it = enum_of(ctx, "em", "any")
        # `From<T> for E<T>` (a bare parameter as the only field) overlaps with the impl of every other variant
        if it.variants[0].fields[0].ty not in [p["n"] for p in g["params"]]:
            break
    else:
        return None
    v0, v1, v2 = it.variants
    f0 = "FFrom (TTuple RNo %s)" % c_list(u_(f.ty, g) for f in v0.fields)
    f1 = "FFrom (TTuple RNo %s)" % c_list(u_(f.ty, g) for f in v1.fields)
    if c.attr == "none":
        c.families = [f0, f1]
    elif c.attr == "variant-forward":
        v1.attrs.append("#[from(forward)]")
        c.families = ["FFromForward %s" % c_list(u_(f.ty, g) for f in v1.fields)]
    elif c.attr == "variant-from":
        v0.attrs.append("#[from]")
        c.families = [f0]
    elif c.attr == "variant-skip":
        v0.attrs.append("#[from(skip)]")
        c.families = [f1]
    else:
        return None
    return it


def b_fromstr(c, ctx):
    if c.shape in ("eu", "esu"):
        c.families = ["FFromStrEnum"]
        return enum_of(ctx, c.shape, "fromstr")
    c.families = ["FFromStrStruct"]
    return struct_of(ctx, c.shape, "fromstr")


def b_index(c, ctx):
    g = ctx.g
    mut_ = c.derive == "IndexMut"
    ans = ["index"] + (["index_mut"] if mut_ else [])
    if mut_:
        c.companions = ["Index"]
    tr = c_str(c.derive)
    if c.attr == "none":
        it = struct_of(ctx, c.shape, "index")
        t = it.fields[0].ty
    else:
        fk, _ = STRUCT_SHAPES[c.shape]
        t = pick_types(ctx, 1, "index", cover=False)[0]
        need = {p["n"] for p in g["params"] if p["k"] in ("lt", "ty")} - set(free_names(t, g))
        it = mk_struct(ctx, fk, [t, uni(g) if need else "bool"])
        for a in ans:
            if c.attr == "ignore-other":
                it.fields[1].attrs.append("#[%s(ignore)]" % a)
            else:
                it.fields[0].attrs.append("#[%s]" % a)
    c.families = ["FIndex %s %s" % (tr, u_(t, g))]
    return it


def orphan_safe(ts, g):
    """Into/TryInto implement a foreign trait for a tuple of the field types: a bare type parameter there is
    rejected by the orphan rules (E0210), independently of the derive"""
    tys = {p["n"] for p in g["params"] if p["k"] == "ty"}
    for t in ts:
        core = t
        m = re.match(r"&'\w+ (.*)$", t)
        if m:
            core = m.group(1)
        if core in tys:
            return False
    return True


def b_into(c, ctx):
    g = ctx.g
    if c.shape in STRUCT0:
        c.families = ["FInto SOwned []"]
        return struct_of(ctx, c.shape, "any")
    for _ in range(8):
        it = struct_of(ctx, c.shape, "any")
        if it is None:
            return None
        if orphan_safe([f.ty for f in it.fields], g):
            break
    else:
        it = mk_struct(ctx, STRUCT_SHAPES[c.shape][0], [uni(g)] * STRUCT_SHAPES[c.shape][1])
    ts = [f.ty for f in it.fields]

    def fam(sel, out):
        return "FInto %s %s" % (SEL[sel], c_list(u_(t, g) for t in out))
    if c.attr == "none":
        c.families = [fam("owned", ts)]
    elif c.attr == "refs":
        it.attrs.append("#[into(owned, ref, ref_mut)]")
        c.families = [fam(s_, ts) for s_ in ("owned", "ref", "ref_mut")]
    elif c.attr == "types":
        if has_lt_or_ty(g):
            return None
        it = mk_struct(ctx, "tuple", ["i32"])
        it.attrs.append("#[into(i64, i128)]")
        c.families = [fam("owned", ["i64"]), fam("owned", ["i128"])]
    elif c.attr == "wrapped":
        if has_lt_or_ty(g) or ctx.unin:
            return None
        it = mk_struct(ctx, "tuple", ["i32"])
        it.attrs.append("#[into(owned(i64, i128), ref(i32), ref_mut)]")
        c.families = [fam("owned", ["i64"]), fam("owned", ["i128"]), fam("ref", ["i32"]), fam("ref_mut", ["i32"])]
    elif c.attr in ("wrapped-generic", "wrapped-tuple"):
        it.attrs.append("#[into(owned((%s)), ref, ref_mut)]" % ", ".join(ts))
        c.families = [fam(s_, ts) for s_ in ("owned", "ref", "ref_mut")]
    elif c.attr == "field-wrapped":
        if has_lt_or_ty(g) or ctx.unin:
            return None
        it = mk_struct(ctx, "named", ["i32", "u8"])
        it.fields[0].attrs.append("#[into(owned(i64), ref)]")
        c.families = [fam("owned", ["i64"]), fam("ref", ["i32"])]
    elif c.attr == "skip":
        it.fields[1].ty = "bool" if not (set(free_names(ts[1], g)) - set(free_names(ts[0], g))) else ts[1]
        if set(free_names(it.fields[1].ty, g)) - set(free_names(ts[0], g)):
            return None
        it.fields[1].attrs.append("#[into(skip)]")
        c.families = [fam("owned", [ts[0]])]
    elif c.attr == "field":
        it.fields[0].attrs.append("#[into]")
        c.families = [fam("owned", [ts[0]])]
    else:
        return None
    return it


def b_intoiterator(c, ctx):
    g = ctx.g
    fk, n = STRUCT_SHAPES[c.shape]
    t = pick_types(ctx, 1, "intoiter", cover=(n == 1))[0]
    if n == 1:
        it = mk_struct(ctx, fk, [t])
    else:
        need = {p["n"] for p in g["params"] if p["k"] in ("lt", "ty")} - set(free_names(t, g))
        it = mk_struct(ctx, fk, [t, uni(g) if need else "bool"])
    sels = ["owned"]
    if c.attr == "refs":
        it.attrs.append("#[into_iterator(owned, ref, ref_mut)]")
        sels = ["owned", "ref", "ref_mut"]
    elif c.attr == "ignore-other":
        it.fields[1].attrs.append("#[into_iterator(ignore)]")
    elif c.attr == "marker":
        it.fields[0].attrs.append("#[into_iterator]")
    elif c.attr == "marker-refs":
        it.fields[0].attrs.append("#[into_iterator(owned, ref, ref_mut)]")
        sels = ["owned", "ref", "ref_mut"]
    c.families = ["FIntoIterator %s %s" % (SEL[s_], u_(t, g)) for s_ in sels]
    return it


def b_variants(c, ctx):
    it = enum_of(ctx, c.shape, "any")
    if it is None:
        return None
    an = snake(c.derive)
    if c.attr == "refs":
        it.attrs.append("#[%s(ref, ref_mut)]" % an)
    elif c.attr == "ignore":
        it.variants[0].attrs.append("#[%s(ignore)]" % an)
    elif c.attr == "ignore-middle":
        it.variants[1].attrs.append("#[%s(ignore)]" % an)
    elif c.attr == "refs-variant":
        it.variants[0].attrs.append("#[%s(ref, ref_mut)]" % an)
    c.families = ["FInherent"]
    return it


def b_tryfrom(c, ctx):
    it = enum_of(ctx, c.shape, "any")
    if it is None:
        return None
    it.attrs.append("#[try_from(repr)]")
    repr_ = "isize"
    if c.attr == "repr-u8":
        it.keep_attrs.append("#[repr(u8)]")
        repr_ = "u8"
    if c.attr == "repr-disc":
        it.variants[0].disc = "5"
    c.families = ["FTryFrom %s" % c_str(repr_)]
    return it


def b_tryinto(c, ctx):
    g = ctx.g
    for _ in range(12):
        it = enum_of(ctx, c.shape, "any")
        if it is None:
            return None
        if c.shape == "e1":
            # two single-field variants: their types must not unify (Vec<u8> / Vec<T> would give overlapping impls)
            slots = [v.fields[0] for v in it.variants[:2]]
            nonvoid = [f for f in slots if f.ty != VOID]
            vals = ["i32", uni(g) if has_lt_or_ty(g) else "String"]
            if len(nonvoid) == 1:
                nonvoid[0].ty = vals[1]
            else:
                slots[0].ty, slots[1].ty = vals
        if orphan_safe([f.ty for f in it.all_fields()], g):
            break
    else:
        return None
    sels = ["owned"]
    if c.attr == "refs":
        it.attrs.append("#[try_into(owned, ref, ref_mut)]")
        sels = ["owned", "ref", "ref_mut"]
    vs = list(it.variants)
    if c.attr == "ignore":
        it.variants[2].attrs.append("#[try_into(ignore)]")
        vs = vs[:2]
    if c.attr == "ignore-nonunit":
        it.variants[0].attrs.append("#[try_into(ignore)]")
        vs = vs[1:]
    groups = []
    for v in vs:
        ts = [f.ty for f in v.fields]
        if ts not in groups:
            groups.append(ts)
    c.families = ["FTryInto %s %s" % (SEL[s_], c_list(u_(t, g) for t in ts)) for ts in groups for s_ in sels]
    c.unordered = True
    return it


BUILDERS = {"addlike": b_addlike, "addassign": b_addassign, "mullike": b_mullike, "mulassign": b_mulassign,
            "sum": b_sum, "asref": b_asref, "constructor": b_constructor, "debug": b_debug, "fmt": b_fmt,
            "deref": b_deref, "error": b_error, "from": b_from, "fromstr": b_fromstr, "index": b_index,
            "into": b_into, "intoiterator": b_intoiterator, "variants": b_variants, "tryfrom": b_tryfrom,
            "tryinto": b_tryinto}


# ------------------------------------------------------------------ the support module of every generated crate

SUP = r'''
#[allow(warnings)]
pub mod sup {
    use core::marker::PhantomData;
    use core::{fmt, ops, iter};

    /// implements every trait the derives can ask of a field type, whatever `X` is
    pub struct P<X: ?Sized>(pub PhantomData<X>);
    /// uninhabited, implements the same traits
    pub enum Void {}
    /// a plain error type
    #[derive(Debug)]
    pub struct E0;
    impl fmt::Display for E0 { fn fmt(&self, f: &mut fmt::Formatter<'_>) -> fmt::Result { f.write_str("E0") } }
    impl std::error::Error for E0 {}

    macro_rules! fmt_impl { ([$($gen:tt)*] $t:ty, $tr:ident) => {
        impl<$($gen)*> fmt::$tr for $t { fn fmt(&self, f: &mut fmt::Formatter<'_>) -> fmt::Result { f.write_str("P") } } } }
    macro_rules! bin_impl { ([$($gen:tt)*] $t:ty, $mk:expr, $tr:ident $m:ident) => {
        impl<$($gen)*> ops::$tr for $t { type Output = Self; fn $m(self, _: Self) -> Self { $mk } } } }
    macro_rules! binassign_impl { ([$($gen:tt)*] $t:ty, $tr:ident $m:ident) => {
        impl<$($gen)*> ops::$tr for $t { fn $m(&mut self, _: Self) {} } } }
    macro_rules! scalar_impl { ([$($gen:tt)*] $t:ty, $mk:expr, $tr:ident $m:ident) => {
        impl<__R, $($gen)*> ops::$tr<__R> for $t { type Output = Self; fn $m(self, _: __R) -> Self { $mk } } } }
    macro_rules! scalarassign_impl { ([$($gen:tt)*] $t:ty, $tr:ident $m:ident) => {
        impl<__R, $($gen)*> ops::$tr<__R> for $t { fn $m(&mut self, _: __R) {} } } }
    macro_rules! everything {
        ([$($gen:tt)*] $t:ty, $mk:expr) => {
            impl<$($gen)*> Clone for $t { fn clone(&self) -> Self { $mk } }
            impl<$($gen)*> Copy for $t {}
            impl<$($gen)*> fmt::Debug for $t { fn fmt(&self, f: &mut fmt::Formatter<'_>) -> fmt::Result { f.write_str("P") } }
            fmt_impl!([$($gen)*] $t, Display); fmt_impl!([$($gen)*] $t, Binary); fmt_impl!([$($gen)*] $t, Octal);
            fmt_impl!([$($gen)*] $t, LowerHex); fmt_impl!([$($gen)*] $t, UpperHex); fmt_impl!([$($gen)*] $t, LowerExp);
            fmt_impl!([$($gen)*] $t, UpperExp); fmt_impl!([$($gen)*] $t, Pointer);
            impl<$($gen)*> std::error::Error for $t {}
            bin_impl!([$($gen)*] $t, $mk, Add add); bin_impl!([$($gen)*] $t, $mk, Sub sub);
            bin_impl!([$($gen)*] $t, $mk, BitAnd bitand); bin_impl!([$($gen)*] $t, $mk, BitOr bitor);
            bin_impl!([$($gen)*] $t, $mk, BitXor bitxor);
            binassign_impl!([$($gen)*] $t, AddAssign add_assign); binassign_impl!([$($gen)*] $t, SubAssign sub_assign);
            binassign_impl!([$($gen)*] $t, BitAndAssign bitand_assign); binassign_impl!([$($gen)*] $t, BitOrAssign bitor_assign);
            binassign_impl!([$($gen)*] $t, BitXorAssign bitxor_assign);
            scalar_impl!([$($gen)*] $t, $mk, Mul mul); scalar_impl!([$($gen)*] $t, $mk, Div div);
            scalar_impl!([$($gen)*] $t, $mk, Rem rem); scalar_impl!([$($gen)*] $t, $mk, Shr shr);
            scalar_impl!([$($gen)*] $t, $mk, Shl shl);
            scalarassign_impl!([$($gen)*] $t, MulAssign mul_assign); scalarassign_impl!([$($gen)*] $t, DivAssign div_assign);
            scalarassign_impl!([$($gen)*] $t, RemAssign rem_assign); scalarassign_impl!([$($gen)*] $t, ShrAssign shr_assign);
            scalarassign_impl!([$($gen)*] $t, ShlAssign shl_assign);
            impl<$($gen)*> ops::Not for $t { type Output = Self; fn not(self) -> Self { $mk } }
            impl<$($gen)*> ops::Neg for $t { type Output = Self; fn neg(self) -> Self { $mk } }
            impl<$($gen)*> iter::Sum for $t { fn sum<I: Iterator<Item = Self>>(mut i: I) -> Self { i.next().unwrap() } }
            impl<$($gen)*> iter::Product for $t { fn product<I: Iterator<Item = Self>>(mut i: I) -> Self { i.next().unwrap() } }
            impl<$($gen)*> core::str::FromStr for $t { type Err = E0; fn from_str(_: &str) -> Result<Self, E0> { Err(E0) } }
            impl<__I, $($gen)*> ops::Index<__I> for $t { type Output = Self; fn index(&self, _: __I) -> &Self { self } }
            impl<__I, $($gen)*> ops::IndexMut<__I> for $t { fn index_mut(&mut self, _: __I) -> &mut Self { self } }
            impl<$($gen)*> IntoIterator for $t { type Item = (); type IntoIter = iter::Empty<()>; fn into_iter(self) -> Self::IntoIter { iter::empty() } }
            impl<'__x, $($gen)*> IntoIterator for &'__x $t { type Item = (); type IntoIter = iter::Empty<()>; fn into_iter(self) -> Self::IntoIter { iter::empty() } }
            impl<'__x, $($gen)*> IntoIterator for &'__x mut $t { type Item = (); type IntoIter = iter::Empty<()>; fn into_iter(self) -> Self::IntoIter { iter::empty() } }
            impl<$($gen)*> ops::Deref for $t { type Target = (); fn deref(&self) -> &() { &() } }
            impl<$($gen)*> ops::DerefMut for $t { fn deref_mut(&mut self) -> &mut () { unimplemented!() } }
            impl<__Y: ?Sized, $($gen)*> AsRef<__Y> for $t { fn as_ref(&self) -> &__Y { unimplemented!() } }
            impl<__Y: ?Sized, $($gen)*> AsMut<__Y> for $t { fn as_mut(&mut self) -> &mut __Y { unimplemented!() } }
        };
    }
    /// never implemented for a type mentioning a generic parameter of a case
    pub trait Mark {}
    /// formattable / an error / AsRef only under a condition the expansion cannot prove for a type parameter, so a
    /// field of this type compiles only if the derive bounded the field type itself
    pub struct Cnd<X: ?Sized>(pub PhantomData<X>);
    pub struct Cnd2<W, X: ?Sized>(pub PhantomData<W>, pub PhantomData<X>);
    impl<X: ?Sized + Mark> fmt::Debug for Cnd<X> { fn fmt(&self, f: &mut fmt::Formatter<'_>) -> fmt::Result { f.write_str("C") } }
    fmt_impl!([X: ?Sized + Mark] Cnd<X>, Display); fmt_impl!([X: ?Sized + Mark] Cnd<X>, Binary);
    fmt_impl!([X: ?Sized + Mark] Cnd<X>, Octal); fmt_impl!([X: ?Sized + Mark] Cnd<X>, LowerHex);
    fmt_impl!([X: ?Sized + Mark] Cnd<X>, UpperHex); fmt_impl!([X: ?Sized + Mark] Cnd<X>, LowerExp);
    fmt_impl!([X: ?Sized + Mark] Cnd<X>, UpperExp); fmt_impl!([X: ?Sized + Mark] Cnd<X>, Pointer);
    impl<X: ?Sized + Mark> std::error::Error for Cnd<X> {}
    impl<X: ?Sized + Mark, Y: ?Sized> AsRef<Y> for Cnd<X> { fn as_ref(&self) -> &Y { unimplemented!() } }
    impl<X: ?Sized + Mark, Y: ?Sized> AsMut<Y> for Cnd<X> { fn as_mut(&mut self) -> &mut Y { unimplemented!() } }
    impl<W, X: ?Sized + Mark> fmt::Debug for Cnd2<W, X> { fn fmt(&self, f: &mut fmt::Formatter<'_>) -> fmt::Result { f.write_str("C") } }
    fmt_impl!([W, X: ?Sized + Mark] Cnd2<W, X>, Display); fmt_impl!([W, X: ?Sized + Mark] Cnd2<W, X>, Binary);
    fmt_impl!([W, X: ?Sized + Mark] Cnd2<W, X>, Octal); fmt_impl!([W, X: ?Sized + Mark] Cnd2<W, X>, LowerHex);
    fmt_impl!([W, X: ?Sized + Mark] Cnd2<W, X>, UpperHex); fmt_impl!([W, X: ?Sized + Mark] Cnd2<W, X>, LowerExp);
    fmt_impl!([W, X: ?Sized + Mark] Cnd2<W, X>, UpperExp); fmt_impl!([W, X: ?Sized + Mark] Cnd2<W, X>, Pointer);
    impl<W, X: ?Sized + Mark> std::error::Error for Cnd2<W, X> {}
    impl<W, X: ?Sized + Mark, Y: ?Sized> AsRef<Y> for Cnd2<W, X> { fn as_ref(&self) -> &Y { unimplemented!() } }
    impl<W, X: ?Sized + Mark, Y: ?Sized> AsMut<Y> for Cnd2<W, X> { fn as_mut(&mut self) -> &mut Y { unimplemented!() } }
    /// needed for `Need<X>` to be well formed / for `X::NAME`: only a where-clause of the deriving type provides them
    pub trait Req {}
    pub trait Named { const NAME: &'static str; }
    pub struct Need<X: Req>(pub PhantomData<X>);
    everything!([X: Req] Need<X>, Need(PhantomData));
    pub trait TrObj<A> {}
    pub trait Src { type Out; }
    pub trait TrA<A> { type X; }
    pub struct H;
    impl<A> TrA<A> for H { type X = Cnd<A>; }
    pub trait HasA { type A; }

    everything!([X: ?Sized] P<X>, P(PhantomData));
    everything!([] Void, unreachable!());
}
'''
