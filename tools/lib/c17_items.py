"""C17: derive inputs with structured attributes - rendering (Rust source / Coq term) and the
generators of well-formed attribute sets, one per attribute-taking derive (positions restricted
to those impl/doc/*.md documents).

attribute  = {"name": str, "t": tag}
tag        = ("empty",) | ("kw", k) | ("types", [ty], trailing) | ("fmt", lit, [arg], trailing)
           | ("bounds", kw, [pred], trailing) | ("rename", casing) | ("convs", [(kw, None|[ty])], trailing)
           | ("flags", [meta], trailing) | ("repr",) | ("raw", "path"|"list"|"nv", source)
field      = {"attrs": [attribute], "name": str|None, "ty": str}
item       = {"kind": "struct"|"enum", "name", "gen", "attrs", "tuple": True|False|None, "fields", "variants"}
variant    = {"name", "attrs", "tuple", "fields"}
"""
import copy

DISPLAY_FAMILY = {"Display": "display", "Binary": "binary", "Octal": "octal", "LowerHex": "lower_hex",
                  "UpperHex": "upper_hex", "LowerExp": "lower_exp", "UpperExp": "upper_exp", "Pointer": "pointer"}
MUL_FAMILY = {"Mul": "mul", "Div": "div", "Rem": "rem", "Shr": "shr", "Shl": "shl"}
MUL_ASSIGN_FAMILY = {"MulAssign": "mul_assign", "DivAssign": "div_assign", "RemAssign": "rem_assign",
                     "ShrAssign": "shr_assign", "ShlAssign": "shl_assign"}
ATTR_OF = dict(DISPLAY_FAMILY)
ATTR_OF.update(MUL_FAMILY)
ATTR_OF.update(MUL_ASSIGN_FAMILY)
ATTR_OF.update({"Debug": "debug", "From": "from", "Into": "into", "TryFrom": "try_from", "TryInto": "try_into",
                "Error": "error", "AsRef": "as_ref", "AsMut": "as_mut", "Deref": "deref", "DerefMut": "deref_mut",
                "Index": "index", "IndexMut": "index_mut", "IntoIterator": "into_iterator",
                "IsVariant": "is_variant", "Unwrap": "unwrap", "TryUnwrap": "try_unwrap"})


# ------------------------------------------------------------------ rendering

def _list(xs, trailing):
    return ", ".join(xs) + ("," if trailing and xs else "")


def attr_parts(a):
    """-> (kind, args source)"""
    t = a["t"]
    k = t[0]
    if k == "empty":
        return "path", ""
    if k == "kw":
        return "list", t[1] + ("," if len(t) > 2 and t[2] else "")
    if k == "types":
        return "list", _list(t[1], t[2])
    if k == "fmt":
        lit = '"%s"' % t[1]
        if t[2]:
            return "list", lit + ", " + _list(t[2], t[3])
        return "list", lit + ("," if t[3] else "")
    if k == "bounds":
        return "list", "%s(%s)" % (t[1], _list(t[2], t[3])) + ("," if len(t) > 4 and t[4] else "")
    if k == "rename":
        return "list", 'rename_all = "%s"' % t[1] + ("," if len(t) > 2 and t[2] else "")
    if k == "convs":
        parts = []
        for part in t[1]:
            kw, tys = part[0], part[1]
            inner_trailing = len(part) > 2 and part[2]
            if kw is None:
                parts.append(tys[0])
            elif tys is None:
                parts.append(kw)
            else:
                parts.append("%s(%s%s)" % (kw, ", ".join(tys), "," if inner_trailing and tys else ""))
        return "list", _list(parts, t[2])
    if k == "flags":
        return "list", _list(t[1], t[2])
    if k == "repr":
        return "list", "repr" + ("," if len(t) > 1 and t[1] else "")
    if k == "raw":
        return t[1], t[2]
    raise ValueError(t)


def attr_src(a):
    kind, args = attr_parts(a)
    if kind == "path":
        return "#[%s]" % a["name"]
    if kind == "list":
        return "#[%s(%s)]" % (a["name"], args)
    return "#[%s = %s]" % (a["name"], args)


def _fields_src(fields, tup):
    if tup is None:
        return ""
    parts = []
    for f in fields:
        at = " ".join(attr_src(a) for a in f["attrs"])
        body = f["ty"] if tup else "%s: %s" % (f["name"], f["ty"])
        parts.append((at + " " + body).strip())
    return ("(%s)" if tup else " { %s }") % ", ".join(parts)


def item_src(it):
    at = " ".join(attr_src(a) for a in it["attrs"])
    if it["kind"] == "struct":
        body = _fields_src(it["fields"], it["tuple"])
        end = "" if it["tuple"] is False else ";"
        return ("%s struct %s%s%s%s" % (at, it["name"], it["gen"], body, end)).strip()
    vs = []
    for v in it["variants"]:
        vat = " ".join(attr_src(a) for a in v["attrs"])
        vs.append((vat + " " + v["name"] + _fields_src(v["fields"], v["tuple"])).strip())
    return ("%s enum %s%s { %s }" % (at, it["name"], it["gen"], ", ".join(vs))).strip()


def slots(it):
    """every attribute list of the item with its position"""
    out = [(("item",), it["attrs"])]
    if it["kind"] == "struct":
        for i, f in enumerate(it["fields"]):
            out.append((("field", i), f["attrs"]))
    else:
        for j, v in enumerate(it["variants"]):
            out.append((("variant", j), v["attrs"]))
            for i, f in enumerate(v["fields"]):
                out.append((("vfield", j, i), f["attrs"]))
    return out


def slot(it, pos):
    if pos[0] == "item":
        return it["attrs"]
    if pos[0] == "field":
        return it["fields"][pos[1]]["attrs"]
    if pos[0] == "variant":
        return it["variants"][pos[1]]["attrs"]
    return it["variants"][pos[1]]["fields"][pos[2]]["attrs"]


def clone(it):
    return copy.deepcopy(it)


def A(name, *tag):
    return {"name": name, "t": tuple(tag)}


# ------------------------------------------------------------------ item shapes

def fld(ty, name=None, attrs=None):
    return {"attrs": list(attrs or []), "name": name, "ty": ty}


def struct(fields, tup=True, gen="", attrs=None, name="S"):
    if tup is False:
        for i, f in enumerate(fields):
            f["name"] = f["name"] or "f%d" % i
    return {"kind": "struct", "name": name, "gen": gen, "attrs": list(attrs or []), "tuple": tup,
            "fields": fields, "variants": []}


def variant(name, fields=(), tup=None, attrs=None):
    fields = list(fields)
    if fields and tup is None:
        tup = True
    if tup is False:
        for i, f in enumerate(fields):
            f["name"] = f["name"] or "f%d" % i
    return {"name": name, "attrs": list(attrs or []), "tuple": tup if fields else None, "fields": fields}


def enum(variants, gen="", attrs=None, name="E"):
    return {"kind": "enum", "name": name, "gen": gen, "attrs": list(attrs or []), "tuple": None, "fields": [],
            "variants": variants}


TY1 = ["i32", "i16", "u8", "String", "&'static str", "Vec<u8>", "[u8; 2]", "u64", "Box<str>", "std::string::String"]
TY2 = ["(i8, i16)", "(u8, u16)", "(i16, i32)", "(String, u8)", "(i64, Vec<u8>)"]
FT = ["i64", "i32", "String", "Vec<i32>", "u8"]


def pick(rng, xs, lo, hi):
    n = rng.randint(lo, min(hi, len(xs)))
    return rng.sample(xs, n)


# ------------------------------------------------------------------ generators (well-formed sets)

def gen_from(rng):
    n = "from"
    if rng.random() < 0.5:
        nf = rng.choice([1, 1, 2])
        tup = rng.random() < 0.6
        it = struct([fld(rng.choice(FT)) for _ in range(nf)], tup)
        c = rng.random()
        if c < 0.25:
            pass
        elif c < 0.45:
            it["attrs"].append(A(n, "kw", "forward"))
        else:
            it["attrs"].append(A(n, "types", pick(rng, TY1 if nf == 1 else TY2, 1, 3), False))
        return it
    vs = []
    for j in range(rng.randint(2, 3)):
        nf = rng.choice([0, 1, 1, 2])
        v = variant("V%d" % j, [fld(rng.choice(FT)) for _ in range(nf)], rng.random() < 0.6)
        c = rng.random()
        if nf == 0:
            if c < 0.3:
                v["attrs"].append(A(n, "kw", rng.choice(["skip", "ignore"])))
            elif c < 0.45:
                v["attrs"].append(A(n, "empty"))
        elif c < 0.2:
            v["attrs"].append(A(n, "empty"))
        elif c < 0.4:
            v["attrs"].append(A(n, "kw", rng.choice(["skip", "ignore"])))
        elif c < 0.5:
            v["attrs"].append(A(n, "kw", "forward"))
        elif c < 0.8:
            v["attrs"].append(A(n, "types", pick(rng, TY1 if nf == 1 else TY2, 1, 3), False))
        vs.append(v)
    return enum(vs)


def _convs(rng, arity, wrapped_only=False):
    pool = TY1 if arity == 1 else TY2
    if not wrapped_only and rng.random() < 0.4:
        return ("types", pick(rng, pool, 1, 3), False)
    kws = pick(rng, ["owned", "ref", "ref_mut"], 1, 3)
    kws.sort(key=["owned", "ref", "ref_mut"].index)
    parts = []
    for k in kws:
        if rng.random() < 0.5:
            parts.append((k, None))
        else:
            p = pool if k == "owned" else (["str", "[u8]", "i32", "u8"] if arity == 1 else ["(str, u8)", "(i8, [u8])"])
            parts.append((k, pick(rng, p, 1, 2)))
    return ("convs", parts, False)


def gen_into(rng):
    n = "into"
    nf = rng.choice([1, 2, 2])
    tup = rng.random() < 0.5
    it = struct([fld(rng.choice(FT)) for _ in range(nf)], tup)
    skipped = 0
    for f in it["fields"]:
        c = rng.random()
        if c < 0.15 and nf - skipped > 1:
            f["attrs"].append(A(n, "kw", rng.choice(["skip", "ignore"])))
            skipped += 1
            if rng.random() < 0.3:
                f["attrs"].insert(0, A(n, *_convs(rng, 1, True)))
        elif c < 0.3:
            f["attrs"].append(A(n, "empty"))
        elif c < 0.5:
            f["attrs"].append(A(n, *_convs(rng, 1)))
    # a field carrying two or three attributes that `FieldAttribute::merge_attrs` combines component-wise
    if rng.random() < 0.35:
        f = it["fields"][0]
        if not any(a["t"][0] == "kw" for a in f["attrs"]):
            combo = [A(n, "empty")] if rng.random() < 0.5 else []
            combo.append(A(n, *_convs(rng, 1, rng.random() < 0.7)))
            if rng.random() < 0.5:
                combo.append(A(n, *_convs(rng, 1, True)))
            if nf - skipped > 1 and rng.random() < 0.5:
                combo.append(A(n, "kw", rng.choice(["skip", "ignore"])))
                skipped += 1
            rng.shuffle(combo)
            f["attrs"] = combo
    arity = nf - skipped
    c = rng.random()
    if c < 0.25:
        pass
    elif c < 0.4:
        it["attrs"].append(A(n, "empty"))
    else:
        it["attrs"].append(A(n, *_convs(rng, arity)))
    return it


def gen_as(rng, n):
    nf = rng.choice([1, 1, 2, 3])
    tup = rng.random() < 0.5
    tys = rng.sample(FT, nf)
    it = struct([fld(t) for t in tys], tup)
    alt = {"i64": ["i64"], "i32": ["i32"], "String": ["str", "[u8]", "String"], "Vec<i32>": ["[i32]", "Vec<i32>"],
           "u8": ["u8"]}
    if nf == 1 and rng.random() < 0.6:
        c = rng.random()
        if c < 0.2:
            pass
        elif c < 0.5:
            it["attrs"].append(A(n, "kw", "forward"))
        else:
            it["attrs"].append(A(n, "types", pick(rng, alt[tys[0]] + ["u16"], 1, 3), False))
        return it
    if rng.random() < 0.3:
        ks = pick(rng, list(range(nf)), 1, max(1, nf - 1)) if nf > 1 else []
        for k in ks:
            it["fields"][k]["attrs"].append(A(n, "kw", rng.choice(["skip", "ignore"])))
        return it
    marked = pick(rng, list(range(nf)), 1, nf)
    for k in marked:
        c = rng.random()
        f = it["fields"][k]
        if c < 0.4:
            f["attrs"].append(A(n, "empty"))
        elif c < 0.55 and len(marked) == 1:
            f["attrs"].append(A(n, "kw", "forward"))
        else:
            f["attrs"].append(A(n, "types", pick(rng, alt[tys[k]], 1, 3), False))
    return it


def gen_try_from(rng):
    vs = [variant("V%d" % j) for j in range(rng.randint(1, 3))]
    if rng.random() < 0.3:
        vs.append(variant("W", [fld("i32")]))
    it = enum(vs)
    c = rng.random()
    if c < 0.4:
        it["attrs"].append(A("repr", "raw", "list", rng.choice(["u8", "i32", "u16", "C, u8", "usize"])))
    elif c < 0.7:
        it["attrs"].append(A("repr", "raw", "list", rng.choice(["C", "align(4)", "C, align(2)"])))
        it["attrs"].append(A("repr", "raw", "list", rng.choice(["u8", "i64", "u16"])))
    it["attrs"].append(A("try_from", "repr"))
    rng.shuffle(it["attrs"])
    return it


PREDS = ["T: Clone", "T: core::fmt::Debug", "U: Copy", "T: Send + Sync", "U: 'static", "Vec<T>: Clone"]
CASINGS = ["lowercase", "UPPERCASE", "PascalCase", "camelCase", "snake_case", "SCREAMING_SNAKE_CASE", "kebab-case",
           "SCREAMING-KEBAB-CASE"]


def _lit(rng, fields, tup):
    names = ["_%d" % i for i in range(len(fields))] if tup or tup is None else [f["name"] for f in fields]
    if not names:
        return (rng.choice(["x", "unit", "a-b"]), [])
    c = rng.random()
    if c < 0.2:
        return ("lit", [])
    if c < 0.5:
        return (" ".join("{%s}" % x for x in names), [])
    if c < 0.8:
        return (" ".join("{}" for _ in names), list(names))
    return ("{} {k}", [names[0], "k = " + names[-1]])


def _fix_lit(l):
    return l


def gen_display_combo(rng, n):
    """attribute kinds that `merge_attrs` combines field by field (literal, bounds, rename_all), two or three
    of them on one item, in a random order, where each is observable: `rename_all` in the name literal of a
    unit struct / unit variant, bounds in the where clause, the shared literal in every arm"""
    gen = "<T>" if rng.random() < 0.6 else ""
    pred = ["T: Copy", "T: Clone", "u8: Copy", "Vec<T>: Clone"] if gen else ["u8: Copy", "String: Clone"]

    def combo(kinds):
        out = []
        for k in kinds:
            if k == "rename":
                out.append(A(n, "rename", rng.choice(CASINGS)))
            elif k == "bounds":
                out.append(A(n, "bounds", rng.choice(["bound", "bounds"]), pick(rng, pred, 1, 2), False))
            elif k == "bounds2":
                out.append(A(n, "bounds", rng.choice(["bound", "bounds"]), pick(rng, pred, 1, 1), False))
            else:
                out.append(A(n, "fmt", rng.choice(["<{_variant}>", "{_variant}!", "[{_variant}] {}"]),
                             [] if "{}" not in k else [], False))
                if out[-1]["t"][1].endswith("{}"):
                    out[-1] = A(n, "fmt", out[-1]["t"][1], ["1 + 1"], False)
        rng.shuffle(out)
        return out
    c = rng.random()
    if c < 0.25:
        it = struct([], None, gen="")
        pred = ["u8: Copy", "String: Clone"]
        it["attrs"] = combo(rng.choice([["rename", "bounds"], ["rename", "bounds", "bounds2"]]))
        return it
    vs = [variant("VariantOne"), variant("Two"), variant("HTTPError")]
    rng.shuffle(vs)
    vs = vs[:rng.randint(1, 3)]
    if gen:
        vs.append(variant("Other", [fld("T")], True, attrs=[A(n, "fmt", "{_0}", [], False)]))
    elif rng.random() < 0.4:
        vs.append(variant("Num", [fld("i32")], True))
    it = enum(vs, gen=gen)
    if c < 0.7:
        kinds = rng.choice([["rename", "fmt"], ["rename", "bounds"], ["rename", "fmt", "bounds"], ["fmt", "bounds"],
                            ["rename", "bounds", "bounds2"], ["fmt", "bounds", "bounds2"]])
        it["attrs"] = combo(kinds)
    if c >= 0.5:
        for v in it["variants"]:
            if not v["fields"] and rng.random() < 0.7:
                v["attrs"] = combo(rng.choice([["rename", "bounds"], ["rename", "bounds", "bounds2"]]))
    return it


def gen_display(rng, n):
    is_display = n == "display"
    if is_display and rng.random() < 0.45:
        return gen_display_combo(rng, n)
    if rng.random() < 0.5:
        shape = rng.choice(["unit", "one", "one", "two", "gen"])
        if shape == "unit":
            it = struct([], None)
        elif shape == "one":
            it = struct([fld(rng.choice(FT))], rng.random() < 0.5)
        elif shape == "two":
            it = struct([fld("i32"), fld("String")], rng.random() < 0.5)
        else:
            it = struct([fld("T"), fld("U")], rng.random() < 0.5, gen="<T, U>")
        has_fmt = shape in ("two", "gen") or rng.random() < 0.6
        if has_fmt:
            lit, args = _fix_lit(_lit(rng, it["fields"], it["tuple"]))
            it["attrs"].append(A(n, "fmt", lit, args, False))
            if shape == "gen" or rng.random() < 0.2:
                it["attrs"].append(A(n, "bounds", rng.choice(["bound", "bounds"]), pick(rng, PREDS, 1, 3), False))
                if rng.random() < 0.5:
                    it["attrs"].reverse()
        elif shape == "unit" and rng.random() < 0.6:
            it["attrs"].append(A(n, "rename", rng.choice(CASINGS)))
        return it
    gen = "<T, U>" if rng.random() < 0.3 else ""
    vs = []
    for j in range(rng.randint(2, 3)):
        nf = rng.choice([0, 1, 1, 2])
        tys = ["T", "U"] if gen else ["i32", "String"]
        v = variant("Var%d" % j, [fld(tys[i]) for i in range(nf)], rng.random() < 0.5)
        need = nf == 2 or (nf == 0 and not is_display)
        if need or rng.random() < 0.4:
            lit, args = _fix_lit(_lit(rng, v["fields"], v["tuple"]))
            v["attrs"].append(A(n, "fmt", lit, args, False))
            if gen and rng.random() < 0.5:
                v["attrs"].append(A(n, "bounds", rng.choice(["bound", "bounds"]), pick(rng, PREDS, 1, 2), False))
        elif nf == 0 and rng.random() < 0.4:
            v["attrs"].append(A(n, "rename", rng.choice(CASINGS)))
        vs.append(v)
    it = enum(vs, gen=gen)
    if is_display and rng.random() < 0.4 and any(not v["fields"] for v in vs):
        it["attrs"].append(A(n, "rename", rng.choice(CASINGS)))
    return it


def gen_debug_combo(rng):
    """Debug container: literal and one or two `bound(..)` attributes (merged field by field), shuffled"""
    n = "debug"
    tup = rng.random() < 0.5
    it = struct([fld("T"), fld("i32")], tup, gen="<T>")
    names = ["_0", "_1"] if tup else ["f0", "f1"]
    attrs = [A(n, "bounds", rng.choice(["bound", "bounds"]), pick(rng, ["T: Copy", "T: Clone", "u8: Copy"], 1, 2), False)]
    if rng.random() < 0.6:
        attrs.append(A(n, "bounds", rng.choice(["bound", "bounds"]), pick(rng, ["Vec<T>: Clone", "T: Send"], 1, 1), False))
    if rng.random() < 0.6:
        attrs.append(A(n, "fmt", "{%s} {}" % names[0], [names[1]], False))
    else:
        for f in it["fields"]:
            if rng.random() < 0.4:
                f["attrs"].append(A(n, "kw", rng.choice(["skip", "ignore"])))
    rng.shuffle(attrs)
    it["attrs"] = attrs
    if rng.random() < 0.3:
        # the same on an enum: bounds on the enum, literals on the variants
        vs = [variant("A", [fld("T")], True, attrs=[A(n, "fmt", "{_0}", [], False)]), variant("B")]
        it = enum(vs, gen="<T>", attrs=[a for a in attrs if a["t"][0] == "bounds"])
    return it


def gen_debug(rng):
    n = "debug"
    if rng.random() < 0.3:
        return gen_debug_combo(rng)
    gen = "<T, U>" if rng.random() < 0.4 else ""
    tys = ["T", "U", "i32"] if gen else ["i32", "String", "u8"]

    def fields(k):
        fs = [fld(tys[i]) for i in range(k)]
        return fs

    def field_attrs(fs, tup, allow_fmt=True):
        for i, f in enumerate(fs):
            c = rng.random()
            nm = "_%d" % i if tup else "f%d" % i
            if c < 0.25:
                f["attrs"].append(A(n, "kw", rng.choice(["skip", "ignore"])))
            elif c < 0.5 and allow_fmt:
                f["attrs"].append(A(n, "fmt", rng.choice(["{%s}" % nm, "{%s:?}" % nm, "{}", "z"]),
                                    [] if rng.random() < 0.6 else [], False))
                if f["attrs"][-1]["t"][1] == "{}":
                    f["attrs"][-1] = A(n, "fmt", "{}", [nm], False)
    if rng.random() < 0.5:
        k = rng.randint(0, 3)
        tup = rng.random() < 0.5 if k else None
        it = struct(fields(k), tup, gen=gen)
        if k and rng.random() < 0.3:
            lit, args = _fix_lit(_lit(rng, it["fields"], tup))
            it["attrs"].append(A(n, "fmt", lit, args, False))
            field_attrs(it["fields"], tup, allow_fmt=False)
        else:
            field_attrs(it["fields"], tup)
    else:
        vs = []
        for j in range(rng.randint(1, 3)):
            k = rng.randint(0, 2)
            tup = rng.random() < 0.5 if k else None
            v = variant("V%d" % j, fields(k), tup)
            if rng.random() < 0.3:
                lit, args = _fix_lit(_lit(rng, v["fields"], tup))
                v["attrs"].append(A(n, "fmt", lit, args, False))
                field_attrs(v["fields"], tup, allow_fmt=False)
            else:
                field_attrs(v["fields"], tup)
            vs.append(v)
        it = enum(vs, gen=gen)
    if gen and rng.random() < 0.7:
        it["attrs"].append(A(n, "bounds", rng.choice(["bound", "bounds"]), pick(rng, PREDS, 1, 3), False))
        if rng.random() < 0.3:
            it["attrs"].append(A(n, "bounds", rng.choice(["bound", "bounds"]), pick(rng, PREDS, 1, 2), False))
        if rng.random() < 0.5:
            it["attrs"].reverse()
    return it


def gen_single_field(rng, n, flags):
    """Deref DerefMut Index IndexMut IntoIterator; flags: the non-`ignore` parameters"""
    inner = {"deref": "Box<i32>", "deref_mut": "Box<i32>"}.get(n, "Vec<i32>")
    nf = rng.choice([1, 1, 2, 3])
    tup = rng.random() < 0.5
    it = struct([fld(inner)] + [fld(rng.choice(["i32", "bool", "u8"])) for _ in range(nf - 1)], tup)
    rng.shuffle(it["fields"])
    tgt = next(i for i, f in enumerate(it["fields"]) if f["ty"] == inner)
    fl = pick(rng, flags, 1, len(flags)) if flags and rng.random() < 0.6 else []
    fl.sort(key=flags.index)
    if fl == ["forward"] and rng.random() < 0.35:
        fl = ["not(forward)"]          # documented negation (utils.rs:1019); same as no `forward`
    if nf == 1:
        c = rng.random()
        if c < 0.3:
            pass
        elif c < 0.6 and fl:
            it["attrs"].append(A(n, "flags", fl, False))
        elif fl:
            it["fields"][0]["attrs"].append(A(n, "flags", fl, False))
        else:
            it["fields"][0]["attrs"].append(A(n, "empty"))
        return it
    if rng.random() < 0.5:
        it["fields"][tgt]["attrs"].append(A(n, "flags", fl, False) if fl else A(n, "empty"))
    else:
        for i, f in enumerate(it["fields"]):
            if i != tgt:
                f["attrs"].append(A(n, "flags", ["ignore"], False))
        if fl and rng.random() < 0.5:
            it["attrs"].append(A(n, "flags", fl, False))
    return it


def gen_enum_only(rng, n, refs, variant_refs):
    """IsVariant Unwrap TryUnwrap TryInto"""
    vs = []
    for j in range(rng.randint(2, 4)):
        k = rng.choice([0, 1, 1, 2])
        v = variant("V%d" % j, [fld(rng.choice(["i32", "String", "u8"])) for _ in range(k)],
                    True if n in ("unwrap", "try_unwrap") else rng.random() < 0.6)
        c = rng.random()
        if c < 0.3:
            v["attrs"].append(A(n, "flags", ["ignore"], False))
        elif c < 0.45 and variant_refs:
            fl = pick(rng, refs, 1, 3)
            fl.sort(key=refs.index)
            v["attrs"].append(A(n, "flags", fl, False))
        elif c < 0.55 and n == "try_into":
            v["attrs"].append(A(n, "empty"))
        vs.append(v)
    it = enum(vs)
    if refs and rng.random() < 0.6:
        fl = pick(rng, refs, 1, 3)
        fl.sort(key=refs.index)
        it["attrs"].append(A(n, "flags", fl, False))
    return it


def gen_mul(rng, n):
    nf = rng.choice([1, 2])
    it = struct([fld("i32") for _ in range(nf)], rng.random() < 0.5)
    c = rng.random()
    if c < 0.5:
        it["attrs"].append(A(n, "flags", ["forward"], False))
    elif c < 0.7:
        it["attrs"].append(A(n, "flags", ["not(forward)"], False))
    return it


ERR_FLAGS = [["source"], ["backtrace"], ["not(source)"], ["not(backtrace)"], ["backtrace", "source"],
             ["source", "not(backtrace)"], ["ignore"]]


def gen_error(rng):
    n = "error"

    def fields(k, tup):
        fs = [fld("Inner%d" % i) for i in range(k)]
        used_src = False
        for f in fs:
            if rng.random() < 0.45:
                fl = list(rng.choice(ERR_FLAGS))
                if "source" in fl and used_src:
                    fl = ["not(source)"]
                if "source" in fl:
                    used_src = True
                if "backtrace" in fl and any("backtrace" in a["t"][1] for g in fs for a in g["attrs"]):
                    fl = ["not(backtrace)"]
                f["attrs"].append(A(n, "flags", fl, False))
        return fs
    if rng.random() < 0.5:
        k = rng.randint(1, 3)
        tup = rng.random() < 0.5
        return struct(fields(k, tup), tup)
    vs = []
    for j in range(rng.randint(1, 3)):
        k = rng.randint(0, 2)
        tup = rng.random() < 0.5
        v = variant("V%d" % j, fields(k, tup), tup)
        if rng.random() < 0.2:
            v["attrs"].append(A(n, "flags", ["ignore"], False))
        vs.append(v)
    return enum(vs)


def generators():
    """derive -> generator(rng)"""
    g = {"From": gen_from, "Into": gen_into, "TryFrom": gen_try_from, "Debug": gen_debug, "Error": gen_error,
         "AsRef": lambda r: gen_as(r, "as_ref"), "AsMut": lambda r: gen_as(r, "as_mut"),
         "Deref": lambda r: gen_single_field(r, "deref", ["forward"]),
         "DerefMut": lambda r: gen_single_field(r, "deref_mut", ["forward"]),
         "Index": lambda r: gen_single_field(r, "index", []),
         "IndexMut": lambda r: gen_single_field(r, "index_mut", []),
         "IntoIterator": lambda r: gen_single_field(r, "into_iterator", ["owned", "ref", "ref_mut"]),
         "IsVariant": lambda r: gen_enum_only(r, "is_variant", [], False),
         "Unwrap": lambda r: gen_enum_only(r, "unwrap", ["owned", "ref", "ref_mut"], True),
         "TryUnwrap": lambda r: gen_enum_only(r, "try_unwrap", ["owned", "ref", "ref_mut"], True),
         "TryInto": lambda r: gen_enum_only(r, "try_into", ["owned", "ref", "ref_mut"], False)}
    for d, n in DISPLAY_FAMILY.items():
        g[d] = (lambda n: lambda r: gen_display(r, n))(n)
    for d, n in list(MUL_FAMILY.items()) + list(MUL_ASSIGN_FAMILY.items()):
        g[d] = (lambda n: lambda r: gen_mul(r, n))(n)
    return g
