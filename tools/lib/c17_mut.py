"""C17: synonymous rewrites and single-step corruptions of well-formed attribute sets."""
from lib.c17_items import A, clone, slots, slot, DISPLAY_FAMILY, MUL_FAMILY, MUL_ASSIGN_FAMILY, ATTR_OF

TYPED = ("From", "Into", "AsRef", "AsMut", "TryFrom")
FMT = tuple(DISPLAY_FAMILY) + ("Debug",)
LIST_TAGS = ("types", "bounds", "convs", "flags")


def _own(derive, a):
    # TryFrom also reads (and merges) the `#[repr(..)]` attributes of the enum
    return a["name"] == ATTR_OF[derive] or (derive == "TryFrom" and a["name"] == "repr")


def _each(derive, it):
    for pos, lst in slots(it):
        for k, a in enumerate(lst):
            if _own(derive, a):
                yield pos, k, a


# ------------------------------------------------------------------ synonyms

def _split(a):
    """one attribute listing n things -> n attributes listing one each (None: nothing to split)"""
    t = a["t"]
    if t[0] == "types" and len(t[1]) >= 2:
        return [A(a["name"], "types", [x], False) for x in t[1]]
    if t[0] == "bounds" and len(t[2]) >= 2:
        return [A(a["name"], "bounds", t[1], [x], False) for x in t[2]]
    if t[0] == "convs" and len(t[1]) >= 2:
        return [A(a["name"], "convs", [x], False) for x in t[1]]
    return None


def _split_wrapped(a):
    t = a["t"]
    if t[0] == "convs" and any(tys and kw and len(tys) >= 2 for kw, tys in t[1]):
        parts = []
        for kw, tys in t[1]:
            if kw and tys and len(tys) >= 2:
                parts += [(kw, [x]) for x in tys]
            else:
                parts.append((kw, tys))
        return A(a["name"], "convs", parts, t[2])
    return None


def _with_trailing(a):
    """-> (class, attribute) with a trailing comma added, or None"""
    t = a["t"]
    k = t[0]
    if k == "types" and t[1]:
        return "list", A(a["name"], "types", t[1], True)
    if k == "fmt":
        return ("list" if t[2] else "lone-literal"), A(a["name"], "fmt", t[1], t[2], True)
    if k == "bounds" and t[2]:
        return "list", A(a["name"], "bounds", t[1], t[2], True)
    if k == "convs" and t[1]:
        return "list", A(a["name"], "convs", t[1], True)
    if k == "flags" and t[1]:
        return "list", A(a["name"], "flags", t[1], True)
    if k == "kw":
        return "kw", A(a["name"], "kw", t[1], True)
    if k == "rename":
        return "kw", A(a["name"], "rename", t[1], True)
    if k == "repr":
        return "kw", A(a["name"], "repr", True)
    return None


def _tuple_trailing(ty):
    """`(A, B)` -> `(A, B,)` (tuples of two or more elements only: `(A,)` and `(A)` are different types)"""
    ty = ty.strip()
    if ty.startswith("(") and ty.endswith(")") and ", " in ty and not ty.endswith(",)"):
        return ty[:-1] + ",)"
    return None


def _nested_trailing(a):
    """trailing comma one list level below the attribute's own argument list:
    -> (class, attribute) | None; class 'nested' (same tokens expected) or 'nested-tuple' (the comma is echoed
    inside the type, compared modulo a comma before a closing parenthesis)"""
    t = a["t"]
    if t[0] == "flags":
        new, hit = [], False
        for m in t[1]:
            if m.endswith(")") and "(" in m and not m.endswith("()") and not m.endswith(",)"):
                new.append(m[:-1] + ",)")
                hit = True
            else:
                new.append(m)
        if hit:
            return "nested", A(a["name"], "flags", new, t[2])
    if t[0] == "convs":
        if any(p[0] and p[1] for p in t[1]):
            return "nested", A(a["name"], "convs", [(p[0], p[1], True) if p[0] and p[1] else p for p in t[1]], t[2])
        tys = [(_tuple_trailing(p[1][0]) if p[0] is None else None) for p in t[1]]
        if any(tys):
            return "nested-tuple", A(a["name"], "convs",
                                     [((None, [x]) if x else p) for p, x in zip(t[1], tys)], t[2])
    if t[0] == "types":
        tys = [_tuple_trailing(x) for x in t[1]]
        if any(tys):
            return "nested-tuple", A(a["name"], "types", [x or y for x, y in zip(tys, t[1])], t[2])
    return None


def _nested_tuple_in_convs(a):
    t = a["t"]
    if t[0] == "convs":
        hit = False
        parts = []
        for p in t[1]:
            if p[0] and p[1]:
                tys = [_tuple_trailing(x) for x in p[1]]
                if any(tys):
                    hit = True
                    parts.append((p[0], [x or y for x, y in zip(tys, p[1])]))
                    continue
            parts.append(p)
        if hit:
            return A(a["name"], "convs", parts, t[2])
    return None


def _reversed_inside(a):
    t = a["t"]
    if t[0] == "types" and len(t[1]) >= 2:
        return A(a["name"], "types", t[1][::-1], t[2])
    if t[0] == "bounds" and len(t[2]) >= 2:
        return A(a["name"], "bounds", t[1], t[2][::-1], t[3])
    if t[0] == "convs" and len(t[1]) >= 2:
        return A(a["name"], "convs", t[1][::-1], t[2])
    if t[0] == "flags" and len(t[1]) >= 2:
        return A(a["name"], "flags", t[1][::-1], t[2])
    return None


def _orders(n):
    """the non-identity orders tried for n repeated attributes: all of them up to 3, a few beyond"""
    import itertools
    ident = tuple(range(n))
    if n <= 3:
        return [p for p in itertools.permutations(range(n)) if p != ident]
    return [ident[::-1], ident[1:] + ident[:1], ident[-1:] + ident[:-1], (1, 0) + ident[2:]]


def _permuted_slots(derive, it):
    """every slot with >= 2 attributes of the derive, in every other order (one slot at a time)"""
    for pos, lst in slots(it):
        idx = [k for k, a in enumerate(lst) if _own(derive, a)]
        if len(idx) < 2:
            continue
        for order in _orders(len(idx)):
            n = clone(it)
            nl = slot(n, pos)
            src = [clone(lst[k]) for k in idx]
            for dst, o in zip(idx, order):
                nl[dst] = src[o]
            yield n


def rewrites(derive, it):
    """yield (kind, item, mode); mode 'exact' = token-equal modulo the order of impls,
    'perm' = additionally modulo the order of where-predicates"""
    # skip <-> ignore (typed parsers only; the legacy parser documents `ignore` alone)
    if derive in TYPED or derive in FMT:
        n = clone(it)
        hit = False
        for pos, k, a in _each(derive, n):
            if a["t"][0] == "kw" and a["t"][1] in ("skip", "ignore"):
                slot(n, pos)[k] = A(a["name"], "kw", "ignore" if a["t"][1] == "skip" else "skip")
                hit = True
        if hit:
            yield "skip-ignore", n, "exact"
    # bound / bounds (the `where(..)` spelling of fmt/mod.rs:32 is in no impl/doc/*.md: not part of the property)
    for target in ("bound", "bounds"):
        n = clone(it)
        hit = False
        for pos, k, a in _each(derive, n):
            if a["t"][0] == "bounds" and a["t"][1] != target:
                t = a["t"]
                slot(n, pos)[k] = A(a["name"], "bounds", target, t[2], t[3])
                hit = True
        if hit:
            yield "bound-spelling-" + target, n, "exact"
    # merged <-> split
    n = clone(it)
    hit = False
    for pos, lst in slots(n):
        new = []
        for a in lst:
            sp = _split(a) if _own(derive, a) else None
            if sp:
                new += sp
                hit = True
            else:
                new.append(a)
        lst[:] = new
    if hit:
        yield "split", n, "exact"
        for m in _permuted_slots(derive, n):
            yield "split-permuted", m, "perm"
    n = clone(it)
    hit = False
    for pos, k, a in _each(derive, n):
        sw = _split_wrapped(a)
        if sw:
            slot(n, pos)[k] = sw
            hit = True
    if hit:
        yield "split-wrapped", n, "exact"
    # trailing commas
    for cls in ("list", "kw", "lone-literal"):
        n = clone(it)
        hit = False
        for pos, k, a in _each(derive, n):
            w = _with_trailing(a)
            if w and w[0] == cls:
                slot(n, pos)[k] = w[1]
                hit = True
        if hit:
            yield "trailing-comma-" + cls, n, "exact"
    # trailing commas one level down: inside not(..), owned(..)/ref(..)/ref_mut(..), inside listed tuple types
    for cls in ("nested", "nested-tuple"):
        n = clone(it)
        hit = False
        for pos, k, a in _each(derive, n):
            w = _nested_trailing(a)
            if w and w[0] == cls:
                slot(n, pos)[k] = w[1]
                hit = True
            elif cls == "nested-tuple":
                w2 = _nested_tuple_in_convs(a)
                if w2:
                    slot(n, pos)[k] = w2
                    hit = True
        if hit:
            yield "trailing-comma-" + cls, n, ("exact" if cls == "nested" else "exact-tuples")
    # and at both levels at once
    n = clone(it)
    hit = False
    for pos, k, a in _each(derive, n):
        w = _nested_trailing(a)
        if w and w[0] == "nested":
            o = _with_trailing(w[1])
            slot(n, pos)[k] = o[1] if o and o[0] == "list" else w[1]
            hit = True
    if hit:
        yield "trailing-comma-nested+outer", n, "exact"
    # order of independent attributes of one slot: every order of 2 and 3 repeated attributes
    for n in _permuted_slots(derive, it):
        yield "attr-order", n, "perm"
    # order inside one list
    n = clone(it)
    hit = False
    for pos, k, a in _each(derive, n):
        r = _reversed_inside(a)
        if r:
            slot(n, pos)[k] = r
            hit = True
    if hit:
        yield "list-order", n, "perm"


# ------------------------------------------------------------------ corruptions

def _replace(it, pos, name, attrs):
    n = clone(it)
    lst = slot(n, pos)
    lst[:] = [a for a in lst if a["name"] != name] + list(attrs)
    return n


def _append(it, pos, attr):
    n = clone(it)
    slot(n, pos).append(attr)
    return n


def _raw(name, src, kind="list"):
    return A(name, "raw", kind, src)


def _positions(derive, it):
    """documented positions of the derive's attribute on this item"""
    item = [("item",)]
    fields = [("field", i) for i in range(len(it["fields"]))]
    variants = [("variant", j) for j in range(len(it["variants"]))]
    vfields = [("vfield", j, i) for j, v in enumerate(it["variants"]) for i in range(len(v["fields"]))]
    if derive == "From":
        return item if it["kind"] == "struct" else variants
    if derive in ("Into", "AsRef", "AsMut"):
        return item + fields
    if derive == "TryFrom":
        return item
    if derive in DISPLAY_FAMILY:
        return item + variants
    if derive == "Debug":
        return item + fields + variants + vfields
    if derive in ("Deref", "DerefMut"):
        return item + fields
    if derive in ("Index", "IndexMut", "IntoIterator"):
        return fields
    if derive == "IsVariant":
        return variants
    if derive in ("Unwrap", "TryUnwrap", "TryInto"):
        return item + variants
    if derive in MUL_FAMILY or derive in MUL_ASSIGN_FAMILY:
        return item
    if derive == "Error":
        return fields + variants + vfields
    return []


def corruptions(derive, it, rng):
    """yield dict(kind, detail, item, removed): `removed` = the corrupted item without the offending
    attribute (for the silently-ignored test); every corruption is expected to be rejected, except the
    kind `regression-bound-kept` (formerly silently ignored, repaired by 12fe071/aea87eb): it has to be
    accepted AND the added predicate `T: Clone` has to reach the where clause."""
    name = ATTR_OF[derive]
    poss = _positions(derive, it)
    some = rng.sample(poss, min(2, len(poss)))

    def out(kind, detail, item, removed=None):
        return {"kind": kind, "detail": detail, "item": item, "removed": removed}

    # ---- unknown arguments
    if derive in ("From", "Into", "AsRef", "AsMut"):
        unknown = ["foo = 1", '"str"', "1", "forward = true", "foo(bar) = 2"]
        if derive == "Into":
            unknown += ["owned = 1", "ref(i32) = 2"]
    elif derive == "TryFrom":
        unknown = ["foo", "repr = 1", "repra", '"repr"', "types(u8)"]
    elif derive in DISPLAY_FAMILY:
        unknown = ["foo", "foo(T: Clone)", "skip", "ignore", "1", "bound", "forward", "transparent"]
    elif derive == "Debug":
        unknown = ["foo", "foo(T: Clone)", 'rename_all = "lowercase"', "1", "forward", "transparent"]
    elif derive == "Error":
        unknown = ["foo", "skip", "forward", "not(ignore)", "not(not(source))", "source(x)", "types(i32)", "from"]
    else:
        unknown = ["foo", "skip", "types(i32)", "not(ignore)", "source", "1", "foo(bar)"]
    for pos in some:
        u = rng.choice(unknown)
        yield out("unknown", u, _replace(it, pos, name, [_raw(name, u)]), _replace(it, pos, name, []))
    if some:
        pos = some[0]
        yield out("unknown", "name-value", _replace(it, pos, name, [_raw(name, '"x"', "nv")]),
                  _replace(it, pos, name, []))
    if derive in DISPLAY_FAMILY:
        for pos in some[:1]:
            yield out("unknown", "bad-casing", _replace(it, pos, name, [A(name, "rename", "Foo_Case")]),
                      _replace(it, pos, name, []))

    # ---- legacy syntax
    legacy = []
    if derive == "From":
        legacy = ["types(i32)", 'types("&str")', 'types(i32, "u8")', "forward = true"]
    elif derive == "Into":
        legacy = ["types(i32)", "owned(types(i32))", 'ref(types("str"))', "owned, ref(types(u8))",
                  'types("i32"), owned', "owned, ref, ref_mut, types(i64)"]
    elif derive in FMT:
        legacy = ['fmt = "{}", _0', 'fmt = "x"', 'bound = "T: Clone"', 'fmt = "{} {}", a, b', "fmt = lit"]
    elif derive in ("AsRef", "AsMut"):
        legacy = ["forward = true", "ignore = true"]
    elif derive in ("Deref", "DerefMut") or derive in MUL_FAMILY or derive in MUL_ASSIGN_FAMILY:
        legacy = ["forward = true", "forward = false"]
    elif derive in ("IntoIterator", "TryInto", "Unwrap", "TryUnwrap"):
        legacy = ["owned = true", "owned(types(i32))", "ref(true)"]
    for pos in some[:1]:
        for l in legacy:
            if derive in FMT and l.startswith("bound") and pos[0] in ("field", "vfield"):
                continue
            yield out("legacy", l, _replace(it, pos, name, [_raw(name, l)]), _replace(it, pos, name, []))

    # ---- duplicates where a single one is allowed
    for pos, k, a in list(_each(derive, it)):
        t = a["t"]
        single = t[0] in ("empty", "kw", "fmt", "rename", "repr") or (derive not in TYPED and derive not in FMT)
        if single:
            n = clone(it)
            slot(n, pos).insert(k + 1, clone(a))
            cls = "dup-attr"
            if derive == "Into" and pos[0] == "field" and t[0] == "empty":
                cls = "dup-attr-into-field-empty"
            yield out(cls, t[0], n, it)
        if t[0] == "flags" and t[1]:
            n = clone(it)
            slot(n, pos)[k] = A(name, "flags", t[1] + [t[1][0]], False)
            yield out("dup-inside", t[1][0], n, it)
        if t[0] == "convs":
            flags = [x for x in t[1] if x[0] and x[1] is None]
            if flags:
                n = clone(it)
                slot(n, pos)[k] = A(name, "convs", t[1] + [flags[0]], False)
                yield out("dup-inside", flags[0][0], n, it)

    # ---- mixed kinds / contradicting pairs on one slot
    for pos, k, a in list(_each(derive, it)):
        t = a["t"]
        if derive in ("From", "AsRef", "AsMut"):
            other = None
            if t[0] == "kw" and t[1] == "forward":
                other = A(name, "types", ["i32"], False)
            elif t[0] == "types":
                other = A(name, "kw", "forward")
            elif t[0] == "kw":                      # skip / ignore
                other = A(name, "kw", "forward")
            elif t[0] == "empty":
                other = A(name, "kw", rng.choice(["forward", "skip"]))
            if other:
                yield out("mixed-kinds", "%s+%s" % (t[0], other["t"][0]), _append(it, pos, other), it)
        if derive == "Into":
            if t[0] in ("types",):
                n = clone(it)
                slot(n, pos)[k] = A(name, "convs", [(None, [x]) for x in t[1]] + [("ref", None)], False)
                yield out("mixed-kinds", "types+wrapped", n, it)
            if pos[0] == "item" and t[0] == "empty":
                yield out("mixed-kinds", "empty+types", _append(it, pos, A(name, "types", ["i32"], False)), it)
        if derive == "Debug" and pos[0] in ("field", "vfield") and t[0] == "kw":
            yield out("mixed-kinds", "skip+fmt", _append(it, pos, A(name, "fmt", "x", [], False)), it)
        if t[0] == "flags":
            for c in (["forward", "not(forward)"], ["source", "not(source)"], ["backtrace", "not(backtrace)"]):
                if c[0] in t[1]:
                    n = clone(it)
                    slot(n, pos)[k] = A(name, "flags", t[1] + [c[1]], False)
                    yield out("contradiction", "+".join(c), n, it)
            extra = [x for x in t[1] if x != "ignore" and not x.startswith("not(")]
            if extra and "ignore" not in t[1] and pos[0] != "item":
                n = clone(it)
                slot(n, pos)[k] = A(name, "flags", t[1] + ["ignore"], False)
                base = clone(it)
                slot(base, pos)[k] = A(name, "flags", ["ignore"], False)
                yield out("contradiction", "ignore+other", n, base)

    # ---- documented conflicts and positions
    if derive in ("AsRef", "AsMut") and it["kind"] == "struct":
        if any(_own(derive, a) for a in it["attrs"]):
            yield out("conflict", "struct+field", _append(it, ("field", 0), A(name, "empty")), it)
        else:
            fa = [(pos, a) for pos, k, a in _each(derive, it) if pos[0] == "field"]
            skips = [p for p, a in fa if a["t"][0] == "kw" and a["t"][1] in ("skip", "ignore")]
            others = [p for p, a in fa if not (a["t"][0] == "kw" and a["t"][1] in ("skip", "ignore"))]
            free = [("field", i) for i in range(len(it["fields"])) if not it["fields"][i]["attrs"]]
            if free and others:
                yield out("conflict", "skip+others", _append(it, free[0], A(name, "kw", "skip")), it)
            if free and skips:
                yield out("conflict", "skip+others", _append(it, free[0], A(name, "empty")), it)
            if len(it["fields"]) >= 2:
                yield out("position", "struct-attr-many-fields",
                          _append(it, ("item",), A(name, "kw", "forward")), it)
        yield out("position", "empty-on-struct", _replace(it, ("item",), name, [A(name, "empty")]),
                  _replace(it, ("item",), name, []))
    if derive == "From":
        if it["kind"] == "enum":
            for a in (A(name, "kw", "forward"), A(name, "types", ["i32"], False)):
                yield out("position", "container-attr-on-enum", _append(it, ("item",), a), it)
        else:
            yield out("position", "empty-on-struct", _replace(it, ("item",), name, [A(name, "empty")]),
                      _replace(it, ("item",), name, []))
    if derive == "TryFrom":
        yield out("position", "repr-types", _replace(it, ("item",), name, [_raw(name, "repr(u8)")]),
                  _replace(it, ("item",), name, []))
        yield out("position", "empty", _replace(it, ("item",), name, [A(name, "empty")]),
                  _replace(it, ("item",), name, []))
    if derive == "Debug":
        cont = [("item",)] if it["kind"] == "struct" else [("variant", j) for j in range(len(it["variants"]))]
        for cpos in cont[:2]:
            fs = it["fields"] if cpos == ("item",) else it["variants"][cpos[1]]["fields"]
            if not fs:
                continue
            fpos = ("field", 0) if cpos == ("item",) else ("vfield", cpos[1], 0)
            n = _replace(it, cpos, name, [a for a in slot(it, cpos) if a["name"] == name and a["t"][0] != "fmt"]
                         + [A(name, "fmt", "c", [], False)])
            n = _replace(n, fpos, name, [A(name, "fmt", "f", [], False)])
            yield out("conflict", "container-fmt+field-fmt", n, None)
        if it["kind"] == "enum":
            yield out("position", "fmt-on-enum", _append(it, ("item",), A(name, "fmt", "e", [], False)), it)
            yield out("position", "bounds-on-variant",
                      _append(it, ("variant", 0), A(name, "bounds", "bound", ["T: Clone"], False)), it)
            yield out("position", "skip-on-variant", _append(it, ("variant", 0), A(name, "kw", "skip")), it)
        yield out("position", "skip-on-container", _append(it, ("item",), A(name, "kw", "skip")), it)
    if derive in DISPLAY_FAMILY:
        b = A(name, "bounds", "bound", ["T: Clone"], False)
        if it["kind"] == "struct":
            if not any(_own(derive, a) and a["t"][0] == "fmt" for a in it["attrs"]) and len(it["fields"]) <= 1:
                yield out("regression-bound-kept", "bound-without-literal", _append(it, ("item",), b), it)
            if it["fields"] and not any(_own(derive, a) and a["t"][0] == "rename" for a in it["attrs"]):
                yield out("meaningless", "rename_all-on-nonunit", _append(it, ("item",), A(name, "rename", "lowercase")), it)
        else:
            if not any(_own(derive, a) and a["t"][0] == "bounds" for a in it["attrs"]):
                yield out("regression-bound-kept", "bound-on-enum", _append(it, ("item",), b), it)
            for j, v in enumerate(it["variants"]):
                has_fmt = any(_own(derive, a) and a["t"][0] == "fmt" for a in v["attrs"])
                has_ren = any(_own(derive, a) and a["t"][0] == "rename" for a in v["attrs"])
                has_b = any(_own(derive, a) and a["t"][0] == "bounds" for a in v["attrs"])
                if not has_fmt and not has_b and len(v["fields"]) == 1:
                    yield out("regression-bound-kept", "bound-without-literal", _append(it, ("variant", j), b), it)
                    break
            for j, v in enumerate(it["variants"]):
                has_ren = any(_own(derive, a) and a["t"][0] == "rename" for a in v["attrs"])
                has_fmt = any(_own(derive, a) and a["t"][0] == "fmt" for a in v["attrs"])
                if not has_ren and (v["fields"] or has_fmt) and (len(v["fields"]) <= 1 or has_fmt):
                    yield out("meaningless", "rename_all-on-nonunit",
                              _append(it, ("variant", j), A(name, "rename", "lowercase")), it)
                    break
    if derive in MUL_FAMILY or derive in MUL_ASSIGN_FAMILY:
        yield out("position", "forward-on-field", _append(it, ("field", 0), A(name, "flags", ["forward"], False)), it)
        yield out("position", "empty", _replace(it, ("item",), name, [A(name, "empty")]),
                  _replace(it, ("item",), name, []))
    if derive in ("Unwrap", "TryUnwrap"):
        for j, v in enumerate(it["variants"]):
            if v["fields"]:
                yield out("position", "ref-on-field", _append(it, ("vfield", j, 0), A(name, "flags", ["ref"], False)), it)
                break
    if derive in ("Index", "IndexMut"):
        yield out("unknown", "forward", _replace(it, ("field", 0), name, [A(name, "flags", ["forward"], False)]),
                  _replace(it, ("field", 0), name, []))
    if derive == "Error":
        groups = [it["fields"]] if it["kind"] == "struct" else [v["fields"] for v in it["variants"]]
        for gi, fs in enumerate(groups):
            if len(fs) >= 2:
                n = clone(it)
                gs = n["fields"] if it["kind"] == "struct" else n["variants"][gi]["fields"]
                for f in gs[:2]:
                    f["attrs"] = [a for a in f["attrs"] if a["name"] != name] + [A(name, "flags", ["source"], False)]
                if it["kind"] == "enum":
                    n["variants"][gi]["attrs"] = [a for a in n["variants"][gi]["attrs"] if a["name"] != name]
                yield out("conflict", "two-sources", n, None)
                break
    # ---- wrong item kind
    if derive in ("Into", "AsRef", "AsMut") and it["kind"] == "struct" and it["fields"]:
        from lib.c17_items import enum, variant
        e = enum([variant("V0", clone(it)["fields"], it["tuple"])], attrs=clone(it)["attrs"])
        yield out("item-kind", "enum", e, None)
    if derive == "TryFrom":
        from lib.c17_items import struct, fld
        yield out("item-kind", "struct", struct([fld("i32")], True, attrs=clone(it)["attrs"]), None)
