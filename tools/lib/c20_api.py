"""C20 real-build stage, API-surface probe: a tiny generated consumer crate per feature configuration.

Under exactly the configuration's features (+/- std) the crate
  (1) uses every derive of the enabled features on a suitable type, including the documented error paths
      (`?` into Box<dyn Error> under std, the TryInto/TryFrom/FromStr/TryUnwrap/Not/Add error types);
  (2) asserts the trait impls of every exported helper/error type - the expected list is MEASURED on the `full`
      build (what holds under full for a type exported by feature F must hold under F alone; std-dependent impls are
      measured on full+std resp. full without std);
  (3) names every derive at derive_more::D, derive_more::derive::D, derive_more::with_trait::D (macro namespace,
      by deriving through that path) and every re-exported trait at derive_more::with_trait::T (type namespace,
      by using it as a bound).
Each probe sits on its own source lines, so a compiler error is attributed to a probe by its primary span.
"""
from . import c20_cfg

# ---- (3)/(1): one self-contained sample per derive; {p} = path of the derive macro, {n} = type name
DISPLAY_IMPL = ("impl core::fmt::Display for {n} {{ fn fmt(&self, f: &mut core::fmt::Formatter<'_>) -> core::fmt::Result "
                "{{ f.write_str(\"x\") }} }}")
SAMPLES = {
    "Add": "#[derive({p})] struct {n}(i32);", "Sub": "#[derive({p})] struct {n}(i32);",
    "BitAnd": "#[derive({p})] struct {n}(i32);", "BitOr": "#[derive({p})] struct {n}(i32);",
    "BitXor": "#[derive({p})] struct {n}(i32);",
    "AddAssign": "#[derive({p})] struct {n}(i32);", "SubAssign": "#[derive({p})] struct {n}(i32);",
    "BitAndAssign": "#[derive({p})] struct {n}(i32);", "BitOrAssign": "#[derive({p})] struct {n}(i32);",
    "BitXorAssign": "#[derive({p})] struct {n}(i32);",
    "AsRef": "#[derive({p})] struct {n}(i32);", "AsMut": "#[derive({p})] struct {n}(i32);",
    "Constructor": "#[derive({p})] struct {n}(i32);",
    "Debug": "#[derive({p})] struct {n} {{ a: i32, #[debug(skip)] b: u8 }}",
    "Deref": "#[derive({p})] struct {n}(i32);",
    "DerefMut": "#[derive({p})] struct {n}(i32); impl core::ops::Deref for {n} {{ type Target = i32; "
                "fn deref(&self) -> &i32 {{ &self.0 }} }}",
    "Display": "#[derive({p})] #[display(\"{{_0}}!\")] struct {n}(i32);",
    "Binary": "#[derive({p})] struct {n}(i32);", "Octal": "#[derive({p})] struct {n}(i32);",
    "LowerHex": "#[derive({p})] struct {n}(i32);", "UpperHex": "#[derive({p})] struct {n}(i32);",
    "LowerExp": "#[derive({p})] struct {n}(i32);", "UpperExp": "#[derive({p})] struct {n}(i32);",
    "Pointer": "#[derive({p})] struct {n}(&'static i32);",
    "Error": "#[derive(Debug, {p})] struct {n}; " + DISPLAY_IMPL,
    "From": "#[derive({p})] struct {n}(i32);",
    "FromStr": "#[derive({p})] struct {n}(i32);",
    "Index": "#[derive({p})] struct {n}(Vec<i32>);",
    "IndexMut": "#[derive({p})] struct {n}(Vec<i32>); impl<I> core::ops::Index<I> for {n} where Vec<i32>: core::ops::Index<I> "
                "{{ type Output = <Vec<i32> as core::ops::Index<I>>::Output; fn index(&self, i: I) -> &Self::Output {{ self.0.index(i) }} }}",
    "Into": "#[derive({p})] struct {n}(i32);",
    "IntoIterator": "#[derive({p})] struct {n}(Vec<i32>);",
    "IsVariant": "#[derive({p})] enum {n} {{ A, B(i32) }}",
    "Mul": "#[derive({p})] struct {n}(i32);", "Div": "#[derive({p})] struct {n}(i32);",
    "Rem": "#[derive({p})] struct {n}(i32);", "Shr": "#[derive({p})] struct {n}(i32);",
    "Shl": "#[derive({p})] struct {n}(i32);",
    "MulAssign": "#[derive({p})] struct {n}(i32);", "DivAssign": "#[derive({p})] struct {n}(i32);",
    "RemAssign": "#[derive({p})] struct {n}(i32);", "ShrAssign": "#[derive({p})] struct {n}(i32);",
    "ShlAssign": "#[derive({p})] struct {n}(i32);",
    "Not": "#[derive({p})] struct {n}(i32);", "Neg": "#[derive({p})] struct {n}(i32);",
    "Sum": "#[derive({p})] struct {n}(i32); impl core::ops::Add for {n} {{ type Output = {n}; "
           "fn add(self, o: {n}) -> {n} {{ {n}(self.0 + o.0) }} }}",
    "Product": "#[derive({p})] struct {n}(i32); impl core::ops::Mul for {n} {{ type Output = {n}; "
               "fn mul(self, o: {n}) -> {n} {{ {n}(self.0 * o.0) }} }}",
    "TryFrom": "#[derive({p})] #[try_from(repr)] #[repr(u8)] enum {n} {{ A, B }}",
    "TryInto": "#[derive({p})] enum {n} {{ A(i32), B(u8) }}",
    "TryUnwrap": "#[derive({p})] enum {n} {{ A(i32), B }}",
    "Unwrap": "#[derive({p})] enum {n} {{ A(i32), B }}",
}

# generic arguments a re-exported std trait needs when used as a bound `X: Trait<..>`
TRAIT_ARGS = {"From": "<u8>", "Into": "<u8>", "AsRef": "<u8>", "AsMut": "<u8>", "TryFrom": "<u8>", "TryInto": "<u8>",
              "Index": "<usize>", "IndexMut": "<usize>"}

# (2) traits probed on every exported helper type; which of them hold is measured on the `full` build
PROBE_TRAITS = ["core::fmt::Debug", "core::fmt::Display", "Clone", "Copy", "PartialEq", "Eq", "PartialOrd", "Ord",
                "core::hash::Hash", "Default", "Send", "Sync", "Unpin", "core::error::Error", "std::error::Error",
                "core::panic::UnwindSafe", "core::panic::RefUnwindSafe"]

# (1) documented error paths per feature: (code for every configuration, extra code when `std` is on)
ERRPATHS = {
    "add": ("""
    #[derive(derive_more::Add, derive_more::Sub, Clone, Copy, Debug, PartialEq)] pub enum E { A(i32), B(i32), U }
    pub fn run() {
        let r: Result<E, derive_more::BinaryError> = E::A(1) + E::B(2);
        match r { Err(derive_more::BinaryError::Mismatch(e)) => { let _: derive_more::WrongVariantError = e; } _ => panic!() }
        match E::U - E::U { Err(derive_more::BinaryError::Unit(e)) => { let _: derive_more::UnitError = e; } _ => panic!() }
        assert_eq!((E::A(1) + E::A(2)).unwrap(), E::A(3));
    }""", """
    pub fn q() -> Result<E, Box<dyn std::error::Error>> { let s = (E::A(1) + E::A(2))?; Ok(s) }
    pub fn src(e: &derive_more::BinaryError) -> bool { std::error::Error::source(e).is_some() }"""),
    "not": ("""
    #[derive(derive_more::Not, derive_more::Neg, Clone, Copy, Debug, PartialEq)] pub enum Flags { On(i32), Off }
    pub fn run() {
        let r: Result<Flags, derive_more::UnitError> = !Flags::Off;
        assert!(r.is_err());
        assert_eq!((-Flags::On(1)).unwrap(), Flags::On(-1));
    }""", """
    pub fn q(f: Flags) -> Result<Flags, Box<dyn std::error::Error>> { let g = (!f)?; Ok(g) }"""),
    "mul": ("""
    #[derive(derive_more::Mul, derive_more::Div, Clone, Copy, Debug, PartialEq)] #[mul(forward)] #[div(forward)]
    pub enum E { A(i32), U }
    pub fn run() {
        let r: Result<E, derive_more::BinaryError> = E::A(2) * E::A(3);
        assert_eq!(r.unwrap(), E::A(6));
        assert!((E::U / E::U).is_err());
    }""", """
    pub fn q() -> Result<E, Box<dyn std::error::Error>> { let s = (E::A(1) * E::A(2))?; Ok(s) }"""),
    "from_str": ("""
    #[derive(derive_more::FromStr, Debug, PartialEq)] pub enum Level { Low, High }
    pub fn run() {
        let r: Result<Level, derive_more::FromStrError> = "nope".parse();
        assert!(r.is_err());
        assert_eq!("low".parse::<Level>().unwrap(), Level::Low);
    }""", """
    pub fn q(s: &str) -> Result<Level, Box<dyn std::error::Error>> { let l: Level = s.parse()?; Ok(l) }"""),
    "try_from": ("""
    #[derive(derive_more::TryFrom, Debug, PartialEq)] #[try_from(repr)] #[repr(u8)] pub enum R { A = 1, B }
    pub fn run() {
        let r: Result<R, derive_more::TryFromReprError<u8>> = R::try_from(9u8);
        assert_eq!(r.unwrap_err().input, 9);
        assert_eq!(R::try_from(2u8).unwrap(), R::B);
    }""", """
    pub fn q(v: u8) -> Result<R, Box<dyn std::error::Error>> { let r = R::try_from(v)?; Ok(r) }"""),
    "try_into": ("""
    #[derive(derive_more::TryInto, Debug, PartialEq)] #[try_into(owned, ref)] pub enum V { I(i32), U(u8) }
    pub fn run() {
        let r: Result<i32, derive_more::TryIntoError<V>> = V::U(1).try_into();
        assert_eq!(r.unwrap_err().input, V::U(1));
        let i: i32 = V::I(3).try_into().unwrap();
        assert_eq!(i, 3);
    }""", """
    pub fn q(v: V) -> Result<i32, Box<dyn std::error::Error>> { let i: i32 = v.try_into()?; Ok(i) }"""),
    "try_unwrap": ("""
    #[derive(derive_more::TryUnwrap, Debug, PartialEq)] #[try_unwrap(owned, ref)] pub enum M { A(i32), B }
    pub fn run() {
        let r: Result<i32, derive_more::TryUnwrapError<M>> = M::B.try_unwrap_a();
        assert_eq!(r.unwrap_err().input, M::B);
        assert_eq!(M::A(1).try_unwrap_a().unwrap(), 1);
    }""", """
    pub fn q(m: M) -> Result<i32, Box<dyn std::error::Error>> { let i = m.try_unwrap_a()?; Ok(i) }"""),
    "unwrap": ("""
    #[derive(derive_more::Unwrap)] pub enum M { A(i32), B }
    pub fn run() { assert_eq!(M::A(1).unwrap_a(), 1); let _ = M::B; }""", ""),
    "is_variant": ("""
    #[derive(derive_more::IsVariant)] pub enum M { A(i32), B }
    pub fn run() { assert!(M::A(1).is_a()); assert!(M::B.is_b()); }""", ""),
    "error": ("""
    #[derive(Debug)] pub struct Inner;
    impl core::fmt::Display for Inner { fn fmt(&self, f: &mut core::fmt::Formatter<'_>) -> core::fmt::Result { f.write_str("i") } }
    impl derive_more::with_trait::Error for Inner {}
    #[derive(Debug, derive_more::Error)] pub struct Outer { pub source: Inner }
    impl core::fmt::Display for Outer { fn fmt(&self, f: &mut core::fmt::Formatter<'_>) -> core::fmt::Result { f.write_str("o") } }
    #[derive(Debug, derive_more::Error)] pub enum Many<T> { A { source: T }, B(Inner), C }
    impl<T> core::fmt::Display for Many<T> { fn fmt(&self, f: &mut core::fmt::Formatter<'_>) -> core::fmt::Result { f.write_str("m") } }
    pub fn run() {
        use derive_more::with_trait::Error as _;
        assert!(Outer { source: Inner }.source().is_some());
        assert!(Many::<Inner>::C.source().is_none());
        assert!(Many::A { source: Inner }.source().is_some());
    }""", """
    pub fn q() -> Result<(), Box<dyn std::error::Error>> { Err(Outer { source: Inner })? }"""),
    "display": ("""
    #[derive(derive_more::Display)] #[display("{a}-{b:?}")] pub struct D<T: core::fmt::Debug> { a: i32, b: T }
    #[derive(derive_more::Display, derive_more::UpperHex)] pub enum En { #[display("a{_0}")] #[upper_hex("{_0:X}")] A(u8), #[display("b")] #[upper_hex("B")] B }
    pub fn run() {
        extern crate alloc; use alloc::string::ToString;
        assert_eq!(D { a: 1, b: "x" }.to_string(), "1-\\"x\\"");
        assert_eq!(En::A(1).to_string(), "a1"); assert_eq!(En::B.to_string(), "b");
    }""", ""),
    "debug": ("""
    #[derive(derive_more::Debug)] pub struct G<T> { #[debug("{x:?}!")] x: T, #[debug(skip)] _y: u8 }
    #[derive(derive_more::Debug)] pub enum En { A(u8, #[debug(skip)] u8), B { z: u8 }, C }
    pub fn run() {
        extern crate alloc;
        assert_eq!(alloc::format!("{:?}", G { x: 1, _y: 2 }), "G { x: 1!, .. }");
        assert_eq!(alloc::format!("{:?}", En::A(1, 2)), "A(1, ..)");
        let _ = (En::B { z: 1 }, En::C);
    }""", ""),
    "from": ("""
    #[derive(derive_more::From, Debug, PartialEq)] pub enum F { #[from(i32, i16)] I(i32), #[from] S(&'static str) }
    #[derive(derive_more::From)] #[from(forward)] pub struct W(i64);
    pub fn run() { assert_eq!(F::from(1i16), F::I(1)); assert_eq!(F::from("s"), F::S("s")); let _ = W::from(1u8); }""", ""),
    "into": ("""
    #[derive(derive_more::Into, Clone)] #[into(owned, ref, ref_mut)] pub struct P(i32, u8);
    #[derive(derive_more::Into)] #[into(i64, i128)] pub struct Q(i32);
    pub fn run() { let (a, b): (i32, u8) = P(1, 2).into(); assert_eq!((a, b), (1, 2)); let x: i128 = Q(1).into(); assert_eq!(x, 1); }""", ""),
    "as_ref": ("""
    #[derive(derive_more::AsRef, derive_more::AsMut)] pub struct A1(i32);
    #[derive(derive_more::AsRef)] #[as_ref(forward)] pub struct A2(alloc::vec::Vec<u8>);
    #[derive(derive_more::AsRef, derive_more::AsMut)] pub struct A3 { #[as_ref] #[as_mut] a: i32, #[as_ref(i64, u8)] b: Wb }
    pub struct Wb(i64); impl AsRef<i64> for Wb { fn as_ref(&self) -> &i64 { &self.0 } } impl AsRef<u8> for Wb { fn as_ref(&self) -> &u8 { &0 } }
    pub fn run() { let a1 = A1(1); let x: &i32 = a1.as_ref(); assert_eq!(*x, 1); let a2 = A2(alloc::vec![1]); let y: &[u8] = a2.as_ref(); assert_eq!(y, [1]);
        let z = A3 { a: 1, b: Wb(2) }; let _: &i32 = z.as_ref(); let _: &i64 = z.as_ref(); }""", ""),
    "constructor": ("""
    #[derive(derive_more::Constructor)] pub struct C2 { a: i32, b: u8 }
    pub fn run() { let c = C2::new(1, 2); assert_eq!((c.a, c.b), (1, 2)); }""", ""),
    "deref": ("""
    #[derive(derive_more::Deref)] pub struct De(alloc::vec::Vec<u8>);
    #[derive(derive_more::Deref)] #[deref(forward)] pub struct Df(alloc::boxed::Box<u8>);
    pub fn run() { assert_eq!(De(alloc::vec![1]).len(), 1); assert_eq!(*Df(alloc::boxed::Box::new(3)), 3); }""", ""),
    "deref_mut": ("""
    pub struct Dm(alloc::vec::Vec<u8>); impl core::ops::Deref for Dm { type Target = alloc::vec::Vec<u8>; fn deref(&self) -> &Self::Target { &self.0 } }
    #[derive(derive_more::DerefMut)] pub struct Dm2 { #[deref_mut] v: Dm, o: u8 } impl core::ops::Deref for Dm2 { type Target = Dm; fn deref(&self) -> &Dm { &self.v } }
    pub fn run() { let _ = |d: &mut Dm2| { let _: &mut Dm = &mut *d; d.o }; }""", ""),
    "index": ("""
    #[derive(derive_more::Index)] pub struct Ix { #[index] v: alloc::vec::Vec<u8>, o: u8 }
    pub fn run() { let i = Ix { v: alloc::vec![7], o: 0 }; assert_eq!(i[0], 7); let _ = i.o; }""", ""),
    "index_mut": ("""
    pub struct Im(alloc::vec::Vec<u8>); impl<I> core::ops::Index<I> for Im where alloc::vec::Vec<u8>: core::ops::Index<I> { type Output = <alloc::vec::Vec<u8> as core::ops::Index<I>>::Output; fn index(&self, i: I) -> &Self::Output { self.0.index(i) } }
    #[derive(derive_more::IndexMut)] pub struct Im2(Im); impl<I> core::ops::Index<I> for Im2 where Im: core::ops::Index<I> { type Output = <Im as core::ops::Index<I>>::Output; fn index(&self, i: I) -> &Self::Output { self.0.index(i) } }
    impl<I> core::ops::IndexMut<I> for Im where alloc::vec::Vec<u8>: core::ops::IndexMut<I> { fn index_mut(&mut self, i: I) -> &mut Self::Output { self.0.index_mut(i) } }
    pub fn run() { let mut m = Im2(Im(alloc::vec![1])); m[0] = 2; assert_eq!(m[0], 2); }""", ""),
    "into_iterator": ("""
    #[derive(derive_more::IntoIterator)] #[into_iterator(owned, ref, ref_mut)] pub struct It(alloc::vec::Vec<u8>);
    pub fn run() { let mut it = It(alloc::vec![1, 2]); for _ in &it {} for x in &mut it { *x += 1; } assert_eq!(it.into_iter().sum::<u8>(), 5); }""", ""),
    "add_assign": ("""
    #[derive(derive_more::AddAssign, derive_more::SubAssign, derive_more::BitOrAssign)] pub struct Aa { a: i32, b: i32 }
    pub fn run() { let mut x = Aa { a: 1, b: 2 }; x += Aa { a: 1, b: 1 }; x -= Aa { a: 0, b: 1 }; x |= Aa { a: 4, b: 0 }; assert_eq!((x.a, x.b), (6, 2)); }""", ""),
    "mul_assign": ("""
    #[derive(derive_more::MulAssign, derive_more::ShlAssign)] pub struct Ma(i32, i32);
    #[derive(derive_more::MulAssign)] #[mul_assign(forward)] pub struct Mf(i32);
    pub fn run() { let mut x = Ma(1, 2); x *= 3; x <<= 1; assert_eq!((x.0, x.1), (6, 12)); let mut y = Mf(2); y *= Mf(3); assert_eq!(y.0, 6); }""", ""),
    "sum": ("""
    #[derive(derive_more::Sum, derive_more::Product, Debug, PartialEq)] pub struct Sm(i32);
    impl core::ops::Add for Sm { type Output = Sm; fn add(self, o: Sm) -> Sm { Sm(self.0 + o.0) } }
    impl core::ops::Mul for Sm { type Output = Sm; fn mul(self, o: Sm) -> Sm { Sm(self.0 * o.0) } }
    pub fn run() { assert_eq!([Sm(1), Sm(2)].into_iter().sum::<Sm>(), Sm(3)); assert_eq!([Sm(2), Sm(3)].into_iter().product::<Sm>(), Sm(6)); }""", ""),
}


def type_instance(s):
    args = ["'static"] * s.get("lifetimes", 0) + ["u8"] * s["type_params"]
    return s["path"] + ("<%s>" % ", ".join(args) if args else "")


def build_source(x, feats, std, baseline=None):
    """-> (main.rs text, probes) where probes = [{id, kind, subject, key, lo, hi}] (1-based line ranges).
    baseline = None: include every probe (to be measured on `full`); else the set of probe keys that FAILED on the
    matching `full` build (those are not expected to hold)."""
    feats = set(feats)
    val = {f: True for f in feats}
    val["std"] = bool(std)
    lines = ["#![allow(dead_code, unused_imports, unused_variables, unused_mut, non_camel_case_types, clippy::all)]",
             "extern crate alloc;"]
    probes = []

    def add(kind, subject, key, code):
        if baseline is not None and key in baseline:
            return
        lo = len(lines) + 1
        for l in code.split("\n"):
            lines.append(l)
        probes.append({"id": len(probes), "kind": kind, "subject": subject, "key": key, "lo": lo, "hi": len(lines)})

    # (2) trait impls of the exported helper types
    for s in x["surface"]:
        if "__private" in s["path"] or not c20_cfg.f_eval(s["guard"], val):
            continue
        inst = type_instance(s)
        for tr in PROBE_TRAITS:
            add("impl", "%s: %s" % (s["name"], tr), "impl:%s:%s" % (s["name"], tr),
                "const _: () = { fn a<T: ?Sized + %s>() {} let _ = a::<%s>; };" % (tr, inst))
    # (3) names, both namespaces
    k = 0
    for (d, f, _) in x["derives"]:
        if f not in feats:
            continue
        for place in ("derive_more", "derive_more::derive", "derive_more::with_trait"):
            k += 1
            add("derive-name", "%s::%s" % (place, d), "derive-name:%s::%s" % (place, d),
                "mod n%d { %s }" % (k, SAMPLES[d].format(p="%s::%s" % (place, d), n="T%d" % k)))
        if d in x["trait_exports"]:
            k += 1
            add("trait-name", "derive_more::with_trait::%s" % d, "trait-name:derive_more::with_trait::%s" % d,
                "mod n%d { pub fn f<X: derive_more::with_trait::%s%s>() {} }" % (k, d, TRAIT_ARGS.get(d, "")))
    # (1) usage with the documented error paths
    for f in sorted(feats):
        if f in ERRPATHS:
            common_code, std_code = ERRPATHS[f]
            add("usage", f, "usage:%s" % f, "mod u_%s {%s\n}" % (f, common_code))
            if std and std_code:
                add("usage", f + " (std error path)", "usage-std:%s" % f,
                    "mod us_%s { use super::u_%s::*;%s\n}" % (f, f, std_code))
    runs = ["    u_%s::run();" % f for f in sorted(feats) if f in ERRPATHS
            and (baseline is None or ("usage:%s" % f) not in baseline)]
    lines.append("fn main() {")
    lines.extend(runs)
    lines.append("}")
    return "\n".join(lines) + "\n", probes


def attribute(probes, messages):
    """compiler errors -> {probe key: first message}; errors outside every probe go under key None"""
    out = {}
    for m in messages:
        if m["level"] != "error":
            continue
        key = None
        if m.get("line") is not None:
            for p in probes:
                if p["lo"] <= m["line"] <= p["hi"]:
                    key = p["key"]
                    break
        out.setdefault(key, "%s (line %s)" % (m["text"], m.get("line")))
    return out


def requested_impl_features(x, feats):
    """what the facade's feature table asks of the impl crate for the facade features `feats` (closure inside the
    facade's own table; entries `derive_more-impl/<g>`) - the DOCUMENTED feature map, not what the impl crate adds"""
    table = x["facade_features"]
    seen = list(feats)
    i = 0
    while i < len(seen):
        for e in table.get(seen[i], []):
            if e in table and e not in seen:
                seen.append(e)
        i += 1
    out = set()
    for f in seen:
        for e in table.get(f, []):
            if e.startswith("derive_more-impl/"):
                out.add(e[len("derive_more-impl/"):])
    return out


def build_negative_source(x, feats, std):
    """names that must NOT resolve under exactly `feats` (+/- std): every derive (three paths; the with_trait path also
    covers the re-exported trait of that name) of a feature that the facade's feature table does not switch on, and every
    helper type whose cfg guard is false.  One `use .. as _;` per line; every line must get a resolution error."""
    req = requested_impl_features(x, feats)
    val = {f: True for f in feats}
    val["std"] = bool(std)
    lines = ["#![allow(unused_imports)]"]
    probes = []

    def add(subject):
        lines.append("mod a%d { use %s as _; }" % (len(probes), subject))
        probes.append({"id": len(probes), "kind": "absent", "subject": subject, "key": "unexpected-name:" + subject,
                       "lo": len(lines), "hi": len(lines)})
    for (d, f, _) in x["derives"]:
        if f in req:
            continue
        for place in ("derive_more", "derive_more::derive", "derive_more::with_trait"):
            add("%s::%s" % (place, d))
    # helper types: expected under S iff some TEMPLATE compiled in under S names them (T-gen from the impl crate's
    # templates: an independent table) - not the facade's own cfg, which is what is being checked; types no template
    # names fall back to their cfg guard
    by_item = {h["item"]: h["uses"] for h in x["helpers"]}
    for s_ in x["surface"]:
        expected = by_item.get(s_["path"], s_["guard"])
        if not c20_cfg.f_eval(expected, val):
            add(s_["path"])
    lines.append("fn main() {}")
    return "\n".join(lines) + "\n", probes


def unexpected_names(probes, messages):
    """probe lines WITHOUT an error = names that resolve although they should not; plus errors on other lines"""
    err_lines = set(m["line"] for m in messages if m["level"] == "error" and m.get("line") is not None)
    resolved = [p for p in probes if p["lo"] not in err_lines]
    stray = [m for m in messages if m["level"] == "error" and (m.get("line") is None or
             not any(p["lo"] == m["line"] for p in probes))]
    return resolved, stray
