"""C16: grammar-based generator of Rust expressions (every syn::Expr form), as shrinkable trees.

A node is ("kind", [parts]) where a part is a token string or a child node.  Rendering joins the
tokens with single spaces (multi-character operators are single strings, so the lexer gives them
their Joint spacing); `tight()` removes the spaces that can be removed without gluing words.
"""
import re

IDENTS = ["x", "y", "a", "b", "c", "self_", "_0", "_1", "field", "n", "r#type", "r#fn", "é", "foo_bar"]
ALIAS = ["x", "name", "n", "a", "width", "r#type", "_w"]
TYIDS = ["T", "U", "K", "V", "A", "B", "u8", "usize", "f64", "String", "Self"]

BINOPS = {  # operator -> precedence (higher binds tighter)
    "*": 10, "/": 10, "%": 10, "+": 9, "-": 9, "<<": 8, ">>": 8, "&": 7, "^": 6, "|": 5,
    "==": 4, "!=": 4, "<": 4, ">": 4, "<=": 4, ">=": 4, "&&": 3, "||": 2,
}
CMP = {"==", "!=", "<", ">", "<=", ">="}
ASSIGN_OPS = ["+=", "-=", "*=", "/=", "%=", "^=", "&=", "|=", "<<=", ">>="]
LITS = ["1", "0", "42u8", "0xffu8", "1_000i64", "1.0", "2e10f32", "1.", '"s"', '"a, b"', '"<|>"', 'r#"x, y"#',
        "b'a'", 'b"ab"', "','", "'\\''", "'<'", "true", "false", 'c"x"', '"{}"']

# kinds whose rendering must be parenthesised when used as an operand
LOW = {"binary", "cast", "range", "assign", "assignop", "closure", "return", "break", "unary", "reference",
       "let", "yield", "continue", "attr", "rawaddr", "struct"}


def N(kind, *parts):
    return (kind, list(parts))


def render(node):
    out = []

    def go(n):
        for p in n[1]:
            if isinstance(p, str):
                out.append(p)
            else:
                go(p)
    go(node)
    return " ".join(out)


_WORD = re.compile(r"[\w\"'#]")


def tight(s):
    """remove the blanks between tokens unless that would glue two words / make a comment / a lifetime"""
    toks = s.split(" ")
    out = toks[0] if toks else ""
    for t in toks[1:]:
        if not t:
            continue
        l, r = out[-1:], t[0]
        glue = True
        if _WORD.match(l) and _WORD.match(r):
            glue = False
        if l == "/" and r in "/*":
            glue = False
        if l in "'" or r in "'":
            glue = False
        if l == "." and r.isdigit() or l.isdigit() and r == ".":
            glue = False
        out += ("" if glue else " ") + t
    return out


class Gen:
    def __init__(self, rng, max_depth=4):
        self.rng = rng
        self.max_depth = max_depth

    # ---------------------------------------------------------------- helpers
    def ch(self, xs):
        return self.rng.choice(xs)

    def p(self, x):
        return self.rng.random() < x

    def ident(self):
        return self.ch(IDENTS)

    def paren(self, n):
        return N("paren", "(", n, ")")

    def operand(self, d, extra_low=()):
        """an expression usable as operand of a postfix / unary / binary operator"""
        e = self.expr(d)
        if e[0] in LOW or e[0] in extra_low:
            return self.paren(e)
        return e

    def cond(self, d):
        """expression in `if`/`while`/`match` head position: no struct literal at the top"""
        e = self.expr(d)
        if e[0] in ("struct", "closure", "return", "break", "range", "assign", "assignop", "let", "yield", "attr"):
            return self.paren(e)
        return e

    def commas(self, items, trailing_p=0.15):
        out = []
        for i, it in enumerate(items):
            if i:
                out.append(",")
            out.append(it)
        if items and self.p(trailing_p):
            out.append(",")
        return out

    # ---------------------------------------------------------------- types, patterns
    def ty(self, d=2):
        r = self.rng.random()
        if d <= 0 or r < 0.3:
            return self.ch(TYIDS)
        k = self.rng.randrange(12)
        if k == 0:
            return "%s < %s , %s >" % (self.ch(["M", "HashMap", "Result"]), self.ty(d - 1), self.ty(d - 1))
        if k == 1:
            return "Vec < %s >" % self.ty(d - 1)
        if k == 2:
            return "Vec < Vec < %s >>" % self.ty(d - 1)
        if k == 3:
            return "& 'a " + self.ty(d - 1)
        if k == 4:
            return "[ %s ; %s ]" % (self.ty(d - 1), self.ch(["N", "4", "{ N + 1 }"]))
        if k == 5:
            return "( %s , %s )" % (self.ty(d - 1), self.ty(d - 1))
        if k == 6:
            return "fn ( %s ) -> %s" % (self.ty(d - 1), self.ty(d - 1))
        if k == 7:
            return "Box < dyn Fn ( %s , %s ) -> %s >" % (self.ty(d - 1), self.ty(d - 1), self.ty(d - 1))
        if k == 8:
            return "< %s as Tr < %s , %s >> :: X" % (self.ty(d - 1), self.ty(d - 1), self.ty(d - 1))
        if k == 9:
            return "* const " + self.ty(d - 1)
        if k == 10:
            return "m :: Ty < 'a , %s , { N } , Item = %s >" % (self.ty(d - 1), self.ty(d - 1))
        return "Option < fn ( ) -> %s >" % self.ty(d - 1)

    def generic_args(self):
        n = self.rng.randrange(1, 4)
        args = []
        for _ in range(n):
            r = self.rng.random()
            if r < 0.7:
                args.append(self.ty(2))
            elif r < 0.8:
                args.append("'a")
            elif r < 0.9:
                args.append(self.ch(["3", "{ N + 1 }", "{ a < b }", "- 1"]))
            else:
                args.append("_")
        return " , ".join(args)

    def pat(self, d=2):
        k = self.rng.randrange(11 if d > 0 else 3)
        if k == 0:
            return self.ident()
        if k == 1:
            return "_"
        if k == 2:
            return self.ch(["1", "'a'", '"s"', "None"])
        if k == 3:
            return "( %s , %s )" % (self.pat(d - 1), self.pat(d - 1))
        if k == 4:
            return "Some ( %s )" % self.pat(d - 1)
        if k == 5:
            return "%s | %s" % (self.pat(d - 1), self.pat(d - 1))
        if k == 6:
            return "S { a , b : %s , .. }" % self.pat(d - 1)
        if k == 7:
            return "1 ..= 2"
        if k == 8:
            return "ref mut x"
        if k == 9:
            return "& " + self.pat(d - 1)
        return "[ a , .. , b ]"

    def block(self, d):
        k = self.rng.randrange(5)
        if k == 0 or d <= 0:
            return N("blk", "{", "}")
        if k == 1:
            return N("blk", "{", self.expr(d - 1), "}")
        if k == 2:
            return N("blk", "{", "let", self.pat(1), "=", self.expr(d - 1), ";", self.expr(d - 1), "}")
        if k == 3:
            return N("blk", "{", self.expr(d - 1), ";", "}")
        return N("blk", "{", "let", "x", ":", self.ty(2), "=", self.expr(d - 1), ";", "x", "}")

    # ---------------------------------------------------------------- expressions
    def path(self):
        k = self.rng.randrange(12)
        if k < 3:
            return N("path", self.ident())
        if k == 3:
            return N("path", "a", "::", "b", "::", self.ident())
        if k == 4:
            return N("path", "::", "std", "::", "f")
        if k == 5:
            return N("path", "f", "::<", self.generic_args(), ">")
        if k == 6:
            return N("path", "Vec", "::<", self.generic_args(), ">", "::", "new")
        if k == 7:
            return N("path", "<", self.ty(2), "as", "Tr", "<", self.ty(1), ",", self.ty(1), ">>", "::", "X")
        if k == 8:
            return N("path", "<", self.ty(2), ">", "::", "new")
        if k == 9:
            return N("path", self.ch(["Self", "crate", "self", "super"]), "::", "X")
        if k == 10:
            return N("path", "m", "::", "K", "::<", self.generic_args(), ">", "::", "C")
        return N("path", self.ch(["self", "Self", "MAX"]))

    def leaf(self):
        if self.p(0.45):
            return N("lit", self.ch(LITS))
        return self.path()

    def expr(self, d=None):
        if d is None:
            d = self.max_depth
        if d <= 0:
            return self.leaf()
        k = self.rng.randrange(44)
        e = self.expr
        if k <= 2:
            return self.leaf()
        if k == 3:
            return N("array", "[", *self.commas([e(d - 1) for _ in range(self.rng.randrange(0, 4))]), "]")
        if k == 4:
            return N("repeat", "[", e(d - 1), ";", e(d - 1), "]")
        if k == 5:
            n = self.rng.randrange(0, 4)
            items = [e(d - 1) for _ in range(n)]
            if n == 1:
                return N("tuple", "(", items[0], ",", ")")
            return N("tuple", "(", *self.commas(items), ")")
        if k == 6:
            return self.paren(e(d - 1))
        if k == 7:
            lhs = self.ch([N("field", self.operand(d - 1), ".", "f"), N("unary", "*", self.operand(d - 1)),
                           N("index", self.operand(d - 1), "[", e(d - 1), "]"), N("infer", "_")])
            return N("assign", lhs, "=", e(d - 1))
        if k == 8:
            return N("assignop", self.operand(d - 1), self.ch(ASSIGN_OPS), e(d - 1))
        if k == 9:
            return N("async", "async", *(["move"] if self.p(0.4) else []), self.block(d - 1))
        if k == 10:
            return N("await", self.operand(d - 1), ".", "await")
        if k in (11, 12, 13, 14):
            return self.binary(d)
        if k == 15:
            return self.block(d - 1)
        if k == 16:
            return N("unsafe", self.ch(["unsafe", "const", "try"]), self.block(d - 1))
        if k == 17:
            r = self.rng.randrange(4)
            if r == 0:
                return N("break", "break")
            if r == 1:
                return N("break", "break", "'a")
            if r == 2:
                return N("break", "break", e(d - 1))
            return N("break", "break", "'a", e(d - 1))
        if k == 18:
            return N("continue", "continue", *(["'a"] if self.p(0.5) else []))
        if k == 19:
            return N("return", "return", *([e(d - 1)] if self.p(0.7) else []))
        if k in (20, 21):
            return N("call", self.operand(d - 1, ("lit",) if self.p(0.9) else ()), "(",
                     *self.commas([e(d - 1) for _ in range(self.rng.randrange(0, 4))]), ")")
        if k in (22, 23):
            parts = [self.operand(d - 1), ".", self.ch(["m", "len", "map", "collect"])]
            if self.p(0.5):
                parts += ["::<", self.generic_args(), ">"]
            return N("method", *parts, "(", *self.commas([e(d - 1) for _ in range(self.rng.randrange(0, 3))]), ")")
        if k == 24:
            return N("field", self.operand(d - 1), ".", self.ch(["f", "0", "k", "0 . 1", "0.1"]))
        if k == 25:
            return N("index", self.operand(d - 1), "[", e(d - 1), "]")
        if k == 26:
            return N("try", self.operand(d - 1), "?")
        if k in (27, 28):
            return self.cast(d)
        if k in (29, 30):
            return self.closure(d)
        if k == 31:
            return N("unary", self.ch(["-", "!", "*"]), self.operand(d - 1))
        if k == 32:
            return N("reference", "&", *(["mut"] if self.p(0.3) else []), self.operand(d - 1))
        if k == 33:
            return N("rawaddr", "&", "raw", self.ch(["const", "mut"]), self.operand(d - 1))
        if k == 34:
            r = self.rng.randrange(6)
            op = self.ch(["..", "..="])
            lo = self.operand(d - 1)
            hi = self.operand(d - 1)
            if r == 0:
                return N("range", "..")
            if r == 1:
                return N("range", lo, "..")
            if r == 2:
                return N("range", op, hi)
            return N("range", lo, op, hi)
        if k == 35:
            return self.if_(d)
        if k == 36:
            lbl = ["'a", ":"] if self.p(0.3) else []
            r = self.rng.randrange(4)
            if r == 0:
                return N("loop", *lbl, "loop", self.block(d - 1))
            if r == 1:
                return N("while", *lbl, "while", self.cond(d - 1), self.block(d - 1))
            if r == 2:
                return N("while", *lbl, "while", "let", self.pat(2), "=", self.cond(d - 1), self.block(d - 1))
            return N("for", *lbl, "for", self.pat(2), "in", self.cond(d - 1), self.block(d - 1))
        if k == 37:
            return self.match(d)
        if k == 38:
            path = self.ch([["m"], ["vec"], ["format"], ["a", "::", "b"], ["matches"]])
            delim = self.ch([("(", ")"), ("[", "]"), ("{", "}")])
            inner = self.commas([e(d - 1) for _ in range(self.rng.randrange(0, 4))]) if self.p(0.8) else \
                ["x", "=>", "<", ",", "|", ">>", ";", "y"]
            return N("macro", *path, "!", delim[0], *inner, delim[1])
        if k == 39:
            path = self.ch([["S"], ["m", "::", "S"], ["S", "::<", self.generic_args(), ">"]])
            fields = []
            for _ in range(self.rng.randrange(0, 3)):
                if self.p(0.3):
                    fields.append(N("fld", self.ident()))
                else:
                    fields.append(N("fld", self.ch(["a", "b", "0"]), ":", e(d - 1)))
            parts = self.commas(fields, 0.3)
            if self.p(0.3):
                parts = parts + ([","] if parts and parts[-1] != "," else []) + ["..", self.operand(d - 1)]
            return N("struct", *path, "{", *parts, "}")
        if k == 40:
            return N("attr", "#", "[", "allow", "(", "unused", ",", "dead_code", ")", "]", self.operand(d - 1))
        if k == 41:
            return N("yield", "yield", e(d - 1))
        if k == 42:
            return N("infer", "_")
        return self.leaf()

    def binary(self, d):
        op = self.ch(list(BINOPS))
        prec = BINOPS[op]

        def side(left):
            c = self.expr(d - 1)
            if c[0] == "binary":
                cp = BINOPS[c[1][1]]
                ok = cp > prec or (cp == prec and left and op not in CMP)
                return c if ok else self.paren(c)
            if c[0] == "cast" and left and op in ("<", "<<", "<="):
                return self.paren(c)
            if c[0] in LOW:
                # a unary / reference operand binds tighter than any binary operator
                if c[0] in ("unary", "reference", "rawaddr") or (c[0] == "cast" and prec < 11):
                    return c
                return self.paren(c)
            if c[0] in ("blk", "unsafe", "if", "match", "loop", "while", "for", "async") and left:
                return self.paren(c)
            return c
        l = side(True)
        r = side(False)
        return N("binary", l, op, r)

    def cast(self, d):
        e = self.expr(d - 1)
        if e[0] in LOW and e[0] not in ("cast", "unary", "reference"):
            e = self.paren(e)
        r = self.rng.random()
        if r < 0.45:
            t = self.ch(["u8", "f64", "usize", "* const u8", "i64"])
        else:
            t = self.ty(2)
        return N("cast", e, "as", t)

    def closure(self, d):
        head = []
        r = self.rng.random()
        if r < 0.2:
            head.append("move")
        elif r < 0.27:
            head.append("async")
        elif r < 0.32:
            head += ["for", "<", "'a", ",", "'b", ">"]
        n = self.rng.randrange(0, 4)
        if n == 0 and self.p(0.7):
            head.append("||")
        else:
            params = []
            for _ in range(n):
                q = self.rng.randrange(5)
                if q == 0:
                    params.append(self.ident())
                elif q == 1:
                    params.append("%s : %s" % (self.ident(), self.ty(2)))
                elif q == 2:
                    params.append("( %s , %s )" % (self.ident(), self.ident()))
                elif q == 3:
                    params.append("& %s" % self.ident())
                else:
                    params.append("_")
            head += ["|"] + self.commas(params, 0.1) + ["|"]
        if self.p(0.2):
            return N("closure", *head, "->", self.ty(2), self.block(d - 1))
        return N("closure", *head, self.expr(d - 1))

    def if_(self, d):
        parts = ["if"]
        if self.p(0.35):
            parts += ["let", self.pat(2), "=", self.cond(d - 1)]
            if self.p(0.3):
                parts += ["&&", self.operand(d - 1)]
        else:
            parts.append(self.cond(d - 1))
        parts.append(self.block(d - 1))
        r = self.rng.random()
        if r < 0.4:
            parts += ["else", self.block(d - 1)]
        elif r < 0.55 and d > 1:
            parts += ["else", self.if_(d - 1)]
        return N("if", *parts)

    def match(self, d):
        arms = []
        for _ in range(self.rng.randrange(0, 4)):
            arm = [self.pat(2)]
            if self.p(0.25):
                arm += ["if", self.operand(d - 1)]
            arm += ["=>", self.expr(d - 1) if self.p(0.6) else self.block(d - 1), ","]
            arms += arm
        return N("match", "match", self.cond(d - 1), "{", *arms, "}")

    # ---------------------------------------------------------------- lists
    def arg_list(self):
        n = self.rng.choice([1, 1, 2, 2, 2, 3, 3, 4])
        items = []
        for _ in range(n):
            depth = self.rng.choice([0, 1, 1, 2, 2, 3, 3, self.max_depth])
            e = self.expr(depth)
            alias = self.ch(ALIAS) if self.p(0.2) else None
            items.append((alias, e))
        trailing = self.p(0.3)
        style = self.rng.choice([", ", ", ", " , ", ","])
        tight_ = self.p(0.25)
        return {"items": items, "trailing": trailing, "style": style, "tight": tight_}


def render_list(spec):
    parts = []
    for alias, e in spec["items"]:
        s = render(e)
        if spec.get("tight"):
            s = tight(s)
        if alias is not None:
            s = alias + (" = " if not spec.get("tight") else " =") + s
        parts.append(s)
    src = spec["style"].join(parts)
    if spec["trailing"]:
        src += ","
    return src


X = ("path", ["x"])


def subtrees(node, path=()):
    """(path, node) of every child node"""
    for i, p in enumerate(node[1]):
        if not isinstance(p, str):
            yield path + (i,), p
            yield from subtrees(p, path + (i,))


def replace(node, path, new):
    if not path:
        return new
    parts = list(node[1])
    parts[path[0]] = replace(parts[path[0]], path[1:], new)
    return (node[0], parts)


def size(node):
    return 1 + sum(size(p) for p in node[1] if not isinstance(p, str))


def shrink_candidates(spec):
    """smaller variants of a list: drop an element, drop alias/trailing/tight, replace a subtree by `x`
    or by one of its own children"""
    items = spec["items"]
    if len(items) > 1:
        for i in range(len(items)):
            yield dict(spec, items=items[:i] + items[i + 1:])
    if spec["trailing"]:
        yield dict(spec, trailing=False)
    if spec.get("tight"):
        yield dict(spec, tight=False)
    if spec["style"] != ", ":
        yield dict(spec, style=", ")
    for i, (alias, e) in enumerate(items):
        if alias is not None:
            yield dict(spec, items=items[:i] + [(None, e)] + items[i + 1:])
        if e != X:
            yield dict(spec, items=items[:i] + [(alias, X)] + items[i + 1:])
        for path, sub in subtrees(e):
            # hoist the child in place of the whole expression
            yield dict(spec, items=items[:i] + [(alias, sub)] + items[i + 1:])
        for path, sub in subtrees(e):
            if sub != X:
                yield dict(spec, items=items[:i] + [(alias, replace(e, path, X))] + items[i + 1:])


def spec_size(spec):
    return sum(size(e) + (1 if a else 0) for a, e in spec["items"]) + (1 if spec["trailing"] else 0) \
        + (1 if spec.get("tight") else 0)


# ---------------------------------------------------------------- malformed stream
MUT_TOKENS = ["<", ">", "|", ",", "::", "=", "==", "->", "..", "&", "::<", ">>", "||", "'a", "as", "x", ":", "<<=",
              "(", ")", "{", "}", "|=", "=>"]


def mutate(rng, src):
    toks = src.split(" ")
    for _ in range(rng.randrange(1, 4)):
        k = rng.randrange(4)
        i = rng.randrange(len(toks) + 1)
        if k == 0 and toks:
            del toks[min(i, len(toks) - 1)]
        elif k == 1 and toks:
            j = min(i, len(toks) - 1)
            toks.insert(j, toks[j])
        elif k == 2:
            toks.insert(i, rng.choice(MUT_TOKENS))
        elif toks:
            toks[min(i, len(toks) - 1)] = rng.choice(MUT_TOKENS)
    return " ".join(toks)
