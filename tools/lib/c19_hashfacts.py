"""T-gen for C19: regenerate coq/theories/Gen/HashFacts.v from /repo/impl/src on every run.

Facts extracted (all syntactic properties of the source text):
  1. the hasher the `utils::{HashMap,HashSet}` aliases are built with (utils.rs: `pub type X<..> = PATH<.., State>`,
     `struct State`, `impl BuildHasher for State { type Hasher = ..; fn build_hasher(&self) .. { BODY } }`);
  2. every mention of HashMap|HashSet|RandomState|BTreeMap|BTreeSet|IndexMap|IndexSet in impl/src (outside
     `#[cfg(test)]` modules) with its resolved origin (crate alias / alias definition / std::collections / ordered /
     unresolved) and whether a binding of it is iterated in that file;
  3. every occurrence of a global-state / environment pattern: `static` items, thread_local!, lazy_static!
     (and the RefCell/Cell/Mutex/RwLock/Once*/Lazy* inside them), Box::leak, Once*/Lazy*, Atomic*, SystemTime/Instant/UNIX_EPOCH, env:: / env! / option_env!, process::id, `{:p}` in a
     format-like macro of the macro crate itself, rand/getrandom, fs:: / File::, as_ptr / `*const` casts.

Unknown syntax is an error (TranslatorError), not a skip.  Independent grep-level counts are compared with the
extractor's counts (fail closed).
"""
import os
import re

from . import common
from . import rustlex_c19c20 as L
from .rustlex_c19c20 import Tok, Group, is_p, is_id

WATCH = {"HashMap": "KHashMap", "HashSet": "KHashSet", "RandomState": "KRandomState", "BTreeMap": "KBTreeMap",
         "BTreeSet": "KBTreeSet", "IndexMap": "KIndexMap", "IndexSet": "KIndexSet"}
ORDERED = {"BTreeMap", "BTreeSet", "IndexMap", "IndexSet"}
ITER_METHODS = {"iter", "into_iter", "iter_mut", "drain", "keys", "values", "values_mut", "into_keys", "into_values",
                "retain", "extract_if"}
TEMPLATE_MACROS = {"quote", "quote_spanned", "parse_quote", "parse_quote_spanned"}
# reading the POSITION out of a span (using a span as an error location / in quote_spanned! is not reading it)
SPAN_READS = {"byte_range", "source_text", "source_file", "local_file"}
SPAN_READS_NEAR = {"start", "end", "line", "column", "file", "unwrap"}
ORDER_METHODS = {"sort_by", "sort_by_key", "sort_by_cached_key", "sort_unstable_by", "sort_unstable_by_key", "dedup_by",
                 "dedup_by_key", "binary_search_by", "binary_search_by_key", "max_by", "max_by_key", "min_by", "min_by_key",
                 "cmp", "partial_cmp", "is_sorted_by", "is_sorted_by_key"}
INTERIOR = {"RefCell", "Cell", "UnsafeCell", "Mutex", "RwLock", "OnceCell", "OnceLock", "LazyCell", "LazyLock",
            "Condvar", "Once"}
FORMAT_MACROS = {"format", "write", "writeln", "print", "println", "eprint", "eprintln", "panic", "format_args",
                 "format_ident", "unreachable", "assert", "debug_assert", "todo", "unimplemented"}


class TranslatorError(Exception):
    pass


def src_files(root):
    out = []
    for d, _, names in os.walk(root):
        for n in sorted(names):
            if n.endswith(".rs"):
                out.append(os.path.join(d, n))
    return sorted(out)


def module_path(rel):
    """impl/src-relative file -> module path list (crate root = [])"""
    parts = rel[:-3].split("/")
    if parts[-1] in ("mod", "lib"):
        parts = parts[:-1]
    return parts


# ------------------------------------------------------------------ use trees

def parse_use_tree(items, prefix):
    """items: token tree of a use declaration body (after `use`, before `;`).
    Returns list of (full_path(list of str), bound_name or '*')."""
    out = []
    path = list(prefix)
    i = 0
    n = len(items)
    if n == 0:
        return out
    # leading `::`
    if i + 1 < n and is_p(items[i], ":") and is_p(items[i + 1], ":"):
        i += 2
    while i < n:
        t = items[i]
        if isinstance(t, Group) and t.delim == "{":
            # split on top-level commas
            part = []
            for x in t.items + [Tok("punct", ",", t.end_line)]:
                if is_p(x, ","):
                    if part:
                        out.extend(parse_use_tree(part, path))
                    part = []
                else:
                    part.append(x)
            i += 1
            if i != n:
                raise TranslatorError("tokens after a use group at line %d" % t.line)
            return out
        if is_p(t, "*"):
            out.append((path, "*"))
            i += 1
            if i != n:
                raise TranslatorError("tokens after `*` in use at line %d" % t.line)
            return out
        if not is_id(t):
            raise TranslatorError("unexpected token %r in use tree at line %d" % (t.text, t.line))
        seg = t.text
        i += 1
        if i < n and is_p(items[i], ":"):
            if not (i + 1 < n and is_p(items[i + 1], ":")):
                raise TranslatorError("single colon in use tree at line %d" % t.line)
            path = path + [seg]
            i += 2
            continue
        if i < n and is_id(items[i], "as"):
            name = items[i + 1].text
            i += 2
            if i != n:
                raise TranslatorError("tokens after `as` in use at line %d" % t.line)
            full = path + [seg] if seg != "self" else path
            out.append((full, name))
            return out
        if i == n:
            if seg == "self":
                out.append((path, path[-1] if path else "self"))
            else:
                out.append((path + [seg], seg))
            return out
        raise TranslatorError("unexpected token %r after %s in use tree at line %d" % (items[i].text, seg, t.line))
    return out


def absolutize(path, modpath):
    """resolve leading crate / self / super against the module path"""
    p = list(path)
    if not p:
        return p
    if p[0] == "crate":
        return ["crate"] + p[1:]
    base = list(modpath)
    if p[0] == "self":
        return ["crate"] + base + p[1:]
    if p[0] == "super":
        while p and p[0] == "super":
            if not base:
                raise TranslatorError("`super` above the crate root")
            base = base[:-1]
            p = p[1:]
        return ["crate"] + base + p
    return p            # extern crate / std / core / alloc path


# ------------------------------------------------------------------ scanning one file

class FileScan:
    def __init__(self, root, path):
        self.rel = os.path.relpath(path, root)
        self.src = open(path).read()
        self.toks = L.lex(self.src, path)
        self.items = L.tree(self.toks, path)
        self.mentions = []      # dict(name, line, origin, bindings, ctx, path)
        self.state = []         # dict(kind, line, text, in_template)
        self.iter_sites = []    # (name, line, how)
        self.aliases = {}       # name -> (rhs tokens text) for `type NAME<..> = ...;` at module level
        self.skipped_test_mods = 0


def is_cfg_test_attr(g):
    """`[cfg(test)]` group"""
    if not (isinstance(g, Group) and g.delim == "["):
        return False
    it = g.items
    return (len(it) == 2 and is_id(it[0], "cfg") and isinstance(it[1], Group) and it[1].delim == "("
            and len(it[1].items) == 1 and is_id(it[1].items[0], "test"))


def split_statements(items):
    """split a token-tree list at `;` and after `{}` groups that end an item/statement (approximation good
    enough to delimit `use` declarations and `let` statements)"""
    cur = []
    for t in items:
        cur.append(t)
        if is_p(t, ";"):
            yield cur
            cur = []
        elif isinstance(t, Group) and t.delim == "{":
            yield cur
            cur = []
    if cur:
        yield cur


def scan_scope(fs, items, modpath, in_template, uses, depth=0):
    """Walk one module scope (recursing into blocks, but giving inline `mod` their own `uses`).
    Collects use-imports into `uses` (name -> set of absolute paths; '*' -> set of glob sources)."""
    # pass 1: use declarations anywhere in this module (incl. function bodies), not in nested inline mods
    def collect_uses(items):
        i = 0
        n = len(items)
        while i < n:
            t = items[i]
            if is_id(t, "mod") and i + 2 < n and is_id(items[i + 1]) and isinstance(items[i + 2], Group) \
                    and items[i + 2].delim == "{":
                i += 3
                continue
            if is_id(t, "use") and (i == 0 or not is_p(items[i - 1], ".")):
                j = i + 1
                while j < n and not is_p(items[j], ";"):
                    j += 1
                if j >= n:
                    raise TranslatorError("%s:%d: unterminated use" % (fs.rel, t.line))
                for full, name in parse_use_tree(items[i + 1:j], []):
                    uses.setdefault(name, set()).add(tuple(absolutize(full, modpath)))
                i = j + 1
                continue
            if isinstance(t, Group):
                # do not look for `use` inside templates (quote! { use ... } is emitted code)
                if not (i >= 2 and is_p(items[i - 1], "!") and is_id(items[i - 2]) and items[i - 2].text in TEMPLATE_MACROS):
                    collect_uses(t.items)
            i += 1
    collect_uses(items)


def resolve_origin(name, qual, uses, modpath, rel, local_types):
    """qual: list of path segments written before the name at the mention ([] if bare)."""
    def classify(abs_path):
        p = list(abs_path)
        if p[:1] == ["crate"]:
            if p == ["crate", "utils", name] and name in ("HashMap", "HashSet"):
                return "OAlias"
            return "OUnresolved"
        if p[:1] in (["std"], ["core"], ["alloc"]):
            if name in ORDERED:
                return "OOrdered"
            return "OStd"
        if p[:1] in (["indexmap"],):
            return "OOrdered"
        return "OUnresolved"
    if qual:
        return classify(absolutize(qual + [name], modpath))
    cands = set()
    for p in uses.get(name, ()):
        cands.add(classify(p))
    if not cands and name in local_types and modpath == ["utils"]:
        cands.add("OAlias")
    if not cands:
        for g in uses.get("*", ()):
            cands.add(classify(list(g) + [name]))
    if len(cands) == 1:
        return cands.pop()
    return "OUnresolved"


def qualifier_before(flat, k):
    """path segments written before flat[k] (`a :: b :: NAME`), nearest last"""
    segs = []
    i = k
    while i >= 3 and is_p(flat[i - 1], ":") and is_p(flat[i - 2], ":") and is_id(flat[i - 3]):
        segs.insert(0, flat[i - 3].text)
        i -= 3
    if i >= 2 and is_p(flat[i - 1], ":") and is_p(flat[i - 2], ":") and not segs:
        return ["::"]
    return segs


def binding_names(flat, k):
    """names a collection mentioned at flat[k] is bound to: `let [mut] PAT [: T] = ..mention..;`,
    `NAME: ..mention..` (field / parameter).  Scans backwards inside the enclosing statement."""
    names = []
    depth = 0
    i = k - 1
    seg_start = 0
    colon_name = None
    while i >= 0:
        t = flat[i]
        if t.kind == "close":
            if depth == 0 and t.text == "}":
                seg_start = i + 1
                break
            depth += 1
        elif t.kind == "open":
            if depth == 0:
                seg_start = i + 1
                # keep going through parentheses (tuple / call / parameter list), stop at a block
                if t.text == "{":
                    break
                i -= 1
                continue
            depth -= 1
        elif depth == 0:
            if is_p(t, ";"):
                seg_start = i + 1
                break
            if colon_name is None and is_p(t, ":") and not is_p(flat[i - 1], ":") and not is_p(flat[i + 1], ":") \
                    and is_id(flat[i - 1]):
                colon_name = flat[i - 1].text
        i -= 1
    seg = flat[max(seg_start, 0):k]
    # `let` at statement start (possibly after attributes)
    j0 = 0
    while j0 + 1 < len(seg) and is_p(seg[j0], "#") and seg[j0 + 1].kind == "open":      # skip attributes
        d = 0
        j0 += 1
        while j0 < len(seg):
            if seg[j0].kind == "open":
                d += 1
            elif seg[j0].kind == "close":
                d -= 1
                if d == 0:
                    break
            j0 += 1
        j0 += 1
    for j, t in enumerate(seg):
        if j > j0:
            break
        if j == j0 and is_id(t, "let"):
            d = 0
            for u in seg[j + 1:]:
                if u.kind == "open":
                    d += 1
                elif u.kind == "close":
                    d -= 1
                elif d >= 0 and (is_p(u, "=") or is_p(u, ":")) and d == 0:
                    break
                elif is_id(u) and u.text not in ("mut", "ref"):
                    names.append(u.text)
            break
    if colon_name and colon_name not in names and not names:
        names.append(colon_name)
    return names


def scan_file(root, path, alias_names):
    fs = FileScan(root, path)
    modpath0 = module_path(fs.rel)

    def walk_module(items, modpath):
        uses = {}
        scan_scope(fs, items, modpath, False, uses)
        local_types = set()
        for i, t in enumerate(items):
            if is_id(t, "type") and i + 1 < len(items) and is_id(items[i + 1]):
                local_types.add(items[i + 1].text)
        body = []       # items of this module without nested inline modules / cfg(test) modules
        i = 0
        n = len(items)
        while i < n:
            t = items[i]
            if is_id(t, "mod") and i + 2 < n and is_id(items[i + 1]) and isinstance(items[i + 2], Group) \
                    and items[i + 2].delim == "{":
                # attributes directly before: look back for #[cfg(test)]
                j = i - 1
                is_test = False
                while j >= 1:
                    if isinstance(items[j], Group) and items[j].delim == "[" and is_p(items[j - 1], "#"):
                        if is_cfg_test_attr(items[j]):
                            is_test = True
                        j -= 2
                    elif is_id(items[j], "pub") or (isinstance(items[j], Group) and items[j].delim == "(" and j >= 1
                                                     and is_id(items[j - 1], "pub")):
                        j -= 1
                    else:
                        break
                if is_test:
                    fs.skipped_test_mods += 1
                else:
                    walk_module(items[i + 2].items, modpath + [items[i + 1].text.replace("r#", "")])
                i += 3
                continue
            body.append(t)
            i += 1
        scan_body(fs, body, modpath, uses, local_types)

    walk_module(fs.items, modpath0)
    # iteration sites (file-scoped names)
    names = set()
    for m in fs.mentions:
        names.update(m["bindings"])
    flat = fs.toks
    # a value taken out of / derived from a hash-bound name is hash-bound too:
    # `let [mut] X = .. NAME ..;` (e.g. `let mut t = SCRATCH.with(RefCell::take);`, `let tys = tys.iter();`)
    root = {nm: nm for nm in names}
    changed = True
    while changed:
        changed = False
        k = 0
        while k < len(flat):
            if is_id(flat[k], "let"):
                j = k + 1
                pat = []
                while j < len(flat) and not is_p(flat[j], "=") and not is_p(flat[j], ";"):
                    if is_id(flat[j]) and flat[j].text not in ("mut", "ref"):
                        pat.append(flat[j].text)
                    if is_p(flat[j], ":"):
                        break
                    j += 1
                while j < len(flat) and not is_p(flat[j], "=") and not is_p(flat[j], ";"):
                    j += 1
                e = j
                d = 0
                src_name = None
                while e < len(flat):
                    if flat[e].kind == "open":
                        d += 1
                    elif flat[e].kind == "close":
                        if d == 0:
                            break
                        d -= 1
                    elif d == 0 and is_p(flat[e], ";"):
                        break
                    elif is_id(flat[e]) and flat[e].text in names and src_name is None \
                            and not (e > 0 and is_p(flat[e - 1], ".")):
                        src_name = flat[e].text
                    e += 1
                if src_name is not None:
                    for x in pat:
                        if x not in names:
                            names.add(x)
                            root[x] = root[src_name]
                            changed = True
                k = j
            k += 1
    sites = []
    for k, t in enumerate(flat):
        if is_id(t) and t.text in names:
            if k + 3 < len(flat) and is_p(flat[k + 1], ".") and is_id(flat[k + 2]) and flat[k + 2].text in ITER_METHODS \
                    and flat[k + 3].kind == "open" and flat[k + 3].text == "(":
                sites.append((t.text, t.line, "." + flat[k + 2].text + "()"))
            # `for PAT in [&[mut]] a.b.NAME {`
            if k + 1 < len(flat) and flat[k + 1].kind == "open" and flat[k + 1].text == "{":
                j = k - 1
                while j >= 1 and is_p(flat[j], ".") and is_id(flat[j - 1]):
                    j -= 2
                while j >= 0 and (is_p(flat[j], "&") or is_id(flat[j], "mut")):
                    j -= 1
                if j >= 0 and is_id(flat[j], "in"):
                    sites.append((t.text, t.line, "for-in"))
    fs.iter_sites = sites
    iterated = set(root.get(s[0], s[0]) for s in sites)
    for m in fs.mentions:
        m["iterated"] = any(root.get(b, b) in iterated for b in m["bindings"])
    return fs


def scan_body(fs, items, modpath, uses, local_types):
    """mentions + state patterns in the token trees of one module (nested inline modules removed)"""
    flat = L.flat(items)
    # template ranges: indices inside `quote! {..}` etc.
    in_tpl = [False] * len(flat)
    k = 0
    while k < len(flat):
        t = flat[k]
        if is_id(t) and t.text in TEMPLATE_MACROS and k + 2 < len(flat) and is_p(flat[k + 1], "!") \
                and flat[k + 2].kind == "open":
            d = 0
            j = k + 2
            while j < len(flat):
                if flat[j].kind == "open":
                    d += 1
                elif flat[j].kind == "close":
                    d -= 1
                    if d == 0:
                        break
                in_tpl[j] = True
                j += 1
            k = j
        k += 1
    # which indices are inside a `use` declaration
    in_use = [False] * len(flat)
    k = 0
    while k < len(flat):
        if is_id(flat[k], "use") and not in_tpl[k] and (k == 0 or not is_p(flat[k - 1], ".")):
            j = k
            while j < len(flat) and not is_p(flat[j], ";"):
                in_use[j] = True
                j += 1
            k = j
        k += 1
    # alias definitions `type NAME<..> = RHS;`
    alias_rhs = [False] * len(flat)
    k = 0
    while k < len(flat):
        if is_id(flat[k], "type") and k + 1 < len(flat) and is_id(flat[k + 1]) and flat[k + 1].text in ("HashMap", "HashSet"):
            j = k
            while j < len(flat) and not is_p(flat[j], ";"):
                if j > k + 1:
                    alias_rhs[j] = True
                j += 1
            k = j
        k += 1

    # static-like contexts: `thread_local! {..}`, `lazy_static! {..}`, `static NAME: T = ..;`
    in_static = [False] * len(flat)
    k = 0
    while k < len(flat):
        t = flat[k]
        if is_id(t) and t.text in ("thread_local", "lazy_static") and k + 2 < len(flat) and is_p(flat[k + 1], "!") \
                and flat[k + 2].kind == "open":
            d = 0
            j = k + 2
            while j < len(flat):
                if flat[j].kind == "open":
                    d += 1
                elif flat[j].kind == "close":
                    d -= 1
                    if d == 0:
                        break
                in_static[j] = True
                j += 1
            k = j
        elif is_id(t, "static") and not in_tpl[k]:
            j = k
            d = 0
            while j < len(flat):
                if flat[j].kind == "open":
                    d += 1
                elif flat[j].kind == "close":
                    if d == 0:
                        break
                    d -= 1
                elif d == 0 and is_p(flat[j], ";"):
                    break
                in_static[j] = True
                j += 1
            k = j
        k += 1

    for k, t in enumerate(flat):
        if t.kind == "ident" and in_static[k] and t.text in INTERIOR:
            fs.state.append({"kind": "SInteriorMut", "line": t.line, "text": t.text, "in_template": in_tpl[k]})
        if t.kind == "ident" and t.text in WATCH:
            if k >= 1 and is_id(flat[k - 1], "type"):
                continue                      # the name being defined by the alias itself
            if in_use[k]:
                # the use tree was parsed already; origin = where the import comes from
                origin = resolve_origin(t.text, [], uses, modpath, fs.rel, set())
                fs.mentions.append({"name": t.text, "line": t.line, "origin": origin, "bindings": [], "ctx": "use"})
                continue
            qual = qualifier_before(flat, k)
            if alias_rhs[k] and modpath == ["utils"]:
                origin = "OAliasDef"
            else:
                origin = resolve_origin(t.text, [] if qual == ["::"] else qual, uses, modpath, fs.rel, local_types)
            fs.mentions.append({"name": t.text, "line": t.line, "origin": origin,
                                "bindings": binding_names(flat, k), "ctx": "template" if in_tpl[k] else "code"})
        # ---- state / environment patterns
        st = None
        nxt = flat[k + 1] if k + 1 < len(flat) else None
        nx2 = flat[k + 2] if k + 2 < len(flat) else None
        if t.kind == "ident":
            x = t.text
            if x == "static":
                st = "SStatic"
            elif x == "thread_local":
                st = "SThreadLocal"
            elif x in ("lazy_static", "Lazy", "LazyLock", "LazyCell", "SyncLazy"):
                st = "SLazy"
            elif x in ("OnceLock", "OnceCell", "SyncOnceCell"):
                st = "SOnce"
            elif x == "Once" and qualifier_before(flat, k)[-1:] != ["iter"]:
                st = "SOnce"          # std::sync::Once (std::iter::Once is an iterator type, not state)
            elif re.match(r"Atomic[A-Z]", x):
                st = "SAtomic"
            elif x in ("SystemTime", "Instant", "UNIX_EPOCH"):
                st = "STime"
            elif x in ("env", "option_env") and nxt is not None and is_p(nxt, "!"):
                st = "SEnv"
            elif x == "env" and nxt is not None and nx2 is not None and is_p(nxt, ":") and is_p(nx2, ":"):
                st = "SEnv"
            elif x == "process" and k + 3 < len(flat) and is_p(nxt, ":") and is_p(nx2, ":") and is_id(flat[k + 3], "id"):
                st = "SProcessId"
            elif x in ("rand", "getrandom", "thread_rng", "fastrand", "RandomState"):
                st = "SRandom"
            elif x in ("fs", "File") and nxt is not None and nx2 is not None and is_p(nxt, ":") and is_p(nx2, ":"):
                st = "SFs"
            elif x in ("as_ptr", "as_mut_ptr", "addr_of", "addr_of_mut"):
                st = "SAddress"
            elif x in SPAN_READS and k >= 1 and is_p(flat[k - 1], ".") and nxt is not None and nxt.kind == "open":
                st = "SSpanRead"
            elif x in SPAN_READS_NEAR and k >= 1 and is_p(flat[k - 1], ".") and nxt is not None and nxt.kind == "open" \
                    and any(is_id(flat[q]) and "span" in flat[q].text.lower() for q in range(max(0, k - 5), k)):
                st = "SSpanRead"
            elif x in ORDER_METHODS and k >= 1 and is_p(flat[k - 1], ".") and nxt is not None and nxt.kind == "open":
                # ordering keyed on Debug output / spans / addresses
                d = 0
                j = k + 1
                hit = False
                while j < len(flat):
                    if flat[j].kind == "open":
                        d += 1
                    elif flat[j].kind == "close":
                        d -= 1
                        if d == 0:
                            break
                    elif flat[j].kind == "str" and re.search(r":[^{}]*\?\}", flat[j].value or ""):
                        hit = True
                    elif is_id(flat[j]) and (flat[j].text in ("Debug", "Span", "as_ptr", "addr_of") or "span" in flat[j].text.lower()):
                        hit = True
                    elif is_p(flat[j], "*") and j + 1 < len(flat) and is_id(flat[j + 1], "const"):
                        hit = True
                    j += 1
                if hit:
                    st = "SOrderKey"
            elif x == "leak" and k >= 1 and (is_p(flat[k - 1], ".") or is_p(flat[k - 1], ":")):
                st = "SStatic"            # Box::leak / Vec::leak: a value that outlives the expansion
            elif x in ("set_var", "remove_var", "set_current_dir"):
                st = "SEnv"
            elif x in FORMAT_MACROS and nxt is not None and is_p(nxt, "!") and nx2 is not None and nx2.kind == "open":
                # string literals directly inside the macro call
                d = 0
                j = k + 2
                while j < len(flat):
                    if flat[j].kind == "open":
                        d += 1
                    elif flat[j].kind == "close":
                        d -= 1
                        if d == 0:
                            break
                    elif flat[j].kind == "str" and d == 1 and re.search(r"\{[^{}]*:[^{}]*p\}", flat[j].value or ""):
                        fs.state.append({"kind": "SPointerFmt", "line": flat[j].line, "text": flat[j].text,
                                         "in_template": in_tpl[k]})
                    elif flat[j].kind == "str" and d == 1 and x != "format_ident" \
                            and re.search(r"\{[^{}]*:[^{}]*\?\}", flat[j].value or ""):
                        # Debug formatting inside the macro: `Debug` of syn / proc_macro2 values prints SPANS under the
                        # real compiler (`Ident { ident: "Box", span: #0 bytes(86..89) }`): the position of the item
                        fs.state.append({"kind": "SDebugFmt", "line": flat[j].line, "text": flat[j].text,
                                         "in_template": in_tpl[k]})
                    j += 1
        elif is_p(t, "*") and nxt is not None and is_id(nxt, "const") and k >= 1 and is_id(flat[k - 1], "as"):
            st = "SAddress"
        if st:
            fs.state.append({"kind": st, "line": t.line, "text": t.text, "in_template": in_tpl[k]})


# ------------------------------------------------------------------ the alias definitions

def parse_aliases(root):
    path = os.path.join(root, "utils.rs")
    src = open(path).read()
    items = L.tree(L.lex(src, path), path)
    flat = L.flat(items)
    out = []
    raw = {}
    for name in ("HashMap", "HashSet"):
        # `type NAME < params > = RHS ;` at the top level
        found = None
        for k, t in enumerate(items):
            if is_id(t, "type") and k + 1 < len(items) and is_id(items[k + 1], name):
                j = k + 2
                while j < len(items) and not is_p(items[j], "="):
                    j += 1
                e = j
                while e < len(items) and not is_p(items[e], ";"):
                    e += 1
                found = (items[j + 1:e], t.line)
                break
        if found is None:
            raw[name] = None
            continue
        rhs, line = found
        txt = "".join(x.text for x in L.flat(rhs))
        m = re.match(r"^((?:\w+::)*)(\w+)<(.*)>$", txt)
        if not m:
            raise TranslatorError("utils.rs:%d: cannot parse the right-hand side of `type %s`: %s" % (line, name, txt))
        base_path = (m.group(1) + m.group(2))
        args = split_generic_args(m.group(3))
        std_base = base_path in ("std::collections::" + name, "std::collections::hash_map::HashMap" if name == "HashMap"
                                 else "std::collections::hash_set::HashSet")
        want = 3 if name == "HashMap" else 2
        if len(args) == want - 1:
            state_name, state = None, "StMissing"
        elif len(args) == want:
            state_name = args[-1]
            state = None
        else:
            raise TranslatorError("utils.rs:%d: unexpected generic arguments of `type %s`: %s" % (line, name, txt))
        hasher, ctor, hasher_txt, body_txt = "HtOther", "CtOther", None, None
        if state_name is not None:
            if state_name.split("::")[-1] == "RandomState":
                state = "StRandomState"
            else:
                state, hasher, ctor, hasher_txt, body_txt = parse_state_struct(items, state_name)
        raw[name] = {"line": line, "rhs": txt, "state_type": state_name, "hasher_type": hasher_txt,
                     "build_hasher_body": body_txt}
        out.append({"kind": WATCH[name], "std_base": std_base, "state": state, "hasher": hasher, "ctor": ctor})
    return out, raw


def split_generic_args(s):
    args = []
    d = 0
    cur = ""
    for c in s:
        if c in "<([":
            d += 1
        elif c in ">)]":
            d -= 1
        if c == "," and d == 0:
            args.append(cur)
            cur = ""
        else:
            cur += c
    if cur:
        args.append(cur)
    return args


def parse_state_struct(items, state_name):
    """-> (state_param, hasher_ty, ctor, hasher_text, body_text)"""
    state = "StUnknown"
    for k, t in enumerate(items):
        if is_id(t, "struct") and k + 1 < len(items) and is_id(items[k + 1], state_name):
            nx = items[k + 2] if k + 2 < len(items) else None
            if is_p(nx, ";"):
                state = "StUnitStruct"
            elif isinstance(nx, Group) and len(nx.items) == 0:
                state = "StUnitStruct"
            else:
                state = "StFieldStruct"
    hasher, ctor, hasher_txt, body_txt = "HtOther", "CtOther", None, None
    for k, t in enumerate(items):
        if is_id(t, "impl"):
            j = k + 1
            hdr = []
            while j < len(items) and not (isinstance(items[j], Group) and items[j].delim == "{"):
                hdr.append(items[j])
                j += 1
            if j >= len(items):
                continue
            h = "".join(x.text for x in L.flat(hdr))
            if re.match(r"^(?:(?:std|core)::hash::)?BuildHasher" + "for" + re.escape(state_name) + "$", h):
                body = items[j].items
                for q, u in enumerate(body):
                    if is_id(u, "type") and is_id(body[q + 1], "Hasher"):
                        e = q + 3
                        while not is_p(body[e], ";"):
                            e += 1
                        hasher_txt = "".join(x.text for x in L.flat(body[q + 3:e]))
                    if is_id(u, "fn") and is_id(body[q + 1], "build_hasher"):
                        e = q + 2
                        while not (isinstance(body[e], Group) and body[e].delim == "{"):
                            e += 1
                        body_txt = "".join(x.text for x in L.flat(body[e].items))
                if hasher_txt in ("std::collections::hash_map::DefaultHasher", "std::hash::DefaultHasher", "DefaultHasher"):
                    hasher = "HtDefaultHasher"
                elif hasher_txt in ("std::hash::SipHasher", "core::hash::SipHasher", "SipHasher"):
                    hasher = "HtSipHasher"
                if body_txt in ("Self::Hasher::default()", "Default::default()", "<Self::Hasher>::default()",
                                "<Self::Hasher as Default>::default()", (hasher_txt or "?") + "::default()"):
                    ctor = "CtDefault"
                elif body_txt in ("Self::Hasher::new()", (hasher_txt or "?") + "::new()"):
                    ctor = "CtNew"
    return state, hasher, ctor, hasher_txt, body_txt


# ------------------------------------------------------------------ output

def coq_string(s):
    return '"' + s.replace('"', '""') + '"'


def extract(repo=None):
    repo = repo or common.REPO
    root = os.path.join(repo, "impl", "src")
    aliases, raw_alias = parse_aliases(root)
    scans = [scan_file(root, p, set(a["kind"] for a in aliases)) for p in src_files(root)]
    mentions = []
    state = []
    iter_sites = []
    for fs in scans:
        for m in fs.mentions:
            mentions.append(dict(m, file=fs.rel))
        for s in fs.state:
            state.append(dict(s, file=fs.rel))
        for (name, line, how) in fs.iter_sites:
            iter_sites.append({"file": fs.rel, "name": name, "line": line, "how": how})
    # ---- independent grep-level counts (fail closed)
    grep_m = 0
    grep_static = 0
    for fs in scans:
        src = strip_comments_and_strings(fs.src)
        grep_m += len(re.findall(r"\b(?:HashMap|HashSet|RandomState|BTreeMap|BTreeSet|IndexMap|IndexSet)\b", src))
        grep_static += len(re.findall(r"(?<!')\bstatic\b", src))
    n_alias_names = sum(1 for a in raw_alias.values() if a is not None)
    in_tests = grep_m - n_alias_names - len(mentions)
    counts = {"files": len(scans), "mentions": len(mentions), "grep_mentions": grep_m,
              "alias_definitions": n_alias_names, "mentions_in_cfg_test_modules": in_tests,
              "state_sites": len(state), "grep_static_keyword": grep_static,
              "iteration_sites": len(iter_sites),
              "cfg_test_modules_skipped": sum(fs.skipped_test_mods for fs in scans)}
    if in_tests < 0 or (in_tests > 0 and counts["cfg_test_modules_skipped"] == 0):
        raise TranslatorError("mention count mismatch: extractor %d + %d alias names vs grep %d" %
                              (len(mentions), n_alias_names, grep_m))
    n_static = sum(1 for s in state if s["kind"] == "SStatic")
    if n_static > grep_static:
        raise TranslatorError("static keyword count mismatch: extractor %d vs grep %d" % (n_static, grep_static))
    return {"aliases": aliases, "raw_alias": raw_alias, "mentions": mentions, "state": state,
            "iter_sites": iter_sites, "counts": counts}


def strip_comments_and_strings(src):
    """crude, regex-level (independent of the lexer): remove // and /* */ comments and "..." strings"""
    src = re.sub(r"/\*.*?\*/", " ", src, flags=re.S)
    out = []
    for line in src.split("\n"):
        # drop string literals first (a `//` inside a string is not a comment)
        line2 = re.sub(r'"(?:[^"\\]|\\.)*"', '""', line)
        line2 = re.sub(r"//.*$", "", line2)
        out.append(line2)
    return "\n".join(out)


def render(f):
    lines = []
    lines.append("(** GENERATED by tools/lib/c19_hashfacts.py from /repo/impl/src (hash collections, their hasher,")
    lines.append("    global-state / environment patterns).  Do not edit. *)")
    lines.append("From Coq Require Import List NArith String.")
    lines.append("From Verif Require Import C19.Model.")
    lines.append("Import ListNotations.")
    lines.append("Open Scope N_scope.")
    lines.append("Open Scope string_scope.")
    lines.append("")
    for name, r in sorted(f["raw_alias"].items()):
        lines.append("(* utils.rs alias %s: %s *)" % (name, "absent" if r is None else
                     "line %d, = %s; state type %s; Hasher = %s; build_hasher { %s }" %
                     (r["line"], r["rhs"], r["state_type"], r["hasher_type"], r["build_hasher_body"])))
    lines.append("Definition hash_aliases : list alias_def :=")
    lines.append("  [ " + ";\n    ".join(
        "{| al_kind := %s; al_std_base := %s; al_state := %s; al_hasher := %s; al_ctor := %s |}" %
        (a["kind"], "true" if a["std_base"] else "false", a["state"], a["hasher"], a["ctor"]) for a in f["aliases"]) + " ].")
    lines.append("")
    lines.append("Definition hash_mentions : list mention :=")
    ms = ["{| m_file := %s; m_line := %d; m_kind := %s; m_origin := %s; m_iterated := %s |}" %
          (coq_string(m["file"]), m["line"], WATCH[m["name"]], m["origin"], "true" if m["iterated"] else "false")
          for m in f["mentions"]]
    lines.append("  [ " + ";\n    ".join(ms) + " ].")
    lines.append("")
    lines.append("Definition hash_state_sites : list state_site :=")
    ss = ["{| s_file := %s; s_line := %d; s_kind := %s; s_in_template := %s |}" %
          (coq_string(s["file"]), s["line"], s["kind"], "true" if s["in_template"] else "false") for s in f["state"]]
    lines.append("  [ " + ";\n    ".join(ss) + " ].")
    lines.append("")
    lines.append("Definition hash_facts : facts :=")
    lines.append("  {| f_aliases := hash_aliases; f_mentions := hash_mentions; f_state := hash_state_sites |}.")
    lines.append("")
    return "\n".join(lines)


def generate(repo=None):
    f = extract(repo)
    txt = render(f)
    d = os.path.join(common.COQ, "theories", "Gen")
    os.makedirs(d, exist_ok=True)
    p = os.path.join(d, "HashFacts.v")
    old = open(p).read() if os.path.exists(p) else None
    if old != txt:
        with open(p, "w") as fh:
            fh.write(txt)
    return f


if __name__ == "__main__":
    import json
    import sys
    f = extract(sys.argv[1] if len(sys.argv) > 1 else None)
    print(json.dumps({k: f[k] for k in ("aliases", "raw_alias", "counts", "iter_sites", "state")}, indent=1))
    for m in f["mentions"]:
        print(m)
