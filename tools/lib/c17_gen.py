"""T-gen for C17: re-extract, from the working tree of /repo, the per-position allow-lists of every
derive that parses its attributes with the legacy meta parser (`utils.rs: State::new_impl` /
`get_meta_info`), and which `State` entry point the derive goes through; written to
coq/theories/Gen/C17Allow.v (plain stdlib terms, no dependency on the C17 model) so that
`Proofs.types_never_allowed` & co. are re-checked against what the source says now.
"""
import os
import re

from lib import common

# interned identifier codes shared with coq/theories/C17/Model.v
KW = {"skip": 1, "ignore": 2, "forward": 3, "types": 4, "owned": 5, "ref": 6, "ref_mut": 7, "bound": 8,
      "bounds": 9, "where": 10, "rename_all": 11, "fmt": 12, "repr": 13, "not": 14, "source": 15,
      "backtrace": 16,
      "for": 20, "fn": 21, "dyn": 22, "impl": 23, "mut": 24, "as": 25, "in": 26, "type": 27, "enum": 28,
      "struct": 29}
for _k, _t in enumerate(["u8", "u16", "u32", "u64", "u128", "usize", "i8", "i16", "i32", "i64", "i128", "isize"]):
    KW[_t] = 40 + _k
ATTR_NAMES = ["from", "into", "as_ref", "as_mut", "try_from", "debug", "display", "binary", "octal", "lower_hex",
              "upper_hex", "lower_exp", "upper_exp", "pointer"]
for _k, _t in enumerate(ATTR_NAMES):
    KW[_t] = 100 + _k
LEGACY_BASE = 120

KIND_CODE = {"single": 0, "enum": 1, "mul": 2, "error": 3, "other": 4}


def _vec(s):
    return re.findall(r'"([^"]*)"', s)


def _strip_comments(src):
    return re.sub(r"//[^\n]*", "", src)


def _attr_params(expr, helpers):
    """AttrParams expression -> (enum, variant, struct, field)"""
    expr = _strip_comments(expr).strip()
    m = re.match(r"AttrParams::new\(\s*vec!\[(.*?)\]\s*\)", expr, re.S)
    if m:
        v = _vec(m.group(1))
        return (v, v, v, v)
    m = re.match(r"AttrParams::struct_\(\s*vec!\[(.*?)\]\s*\)", expr, re.S)
    if m:
        return ([], [], _vec(m.group(1)), [])
    m = re.match(r"AttrParams::default\(\)", expr)
    if m:
        return ([], [], [], [])
    m = re.match(r"AttrParams\s*\{(.*)\}", expr, re.S)
    if m:
        d = {}
        for fm in re.finditer(r"(enum_|variant|struct_|field)\s*:\s*vec!\[(.*?)\]", m.group(1), re.S):
            d[fm.group(1)] = _vec(fm.group(2))
        if set(d) != {"enum_", "variant", "struct_", "field"}:
            raise ValueError("cannot read AttrParams literal: %r" % expr[:200])
        return (d["enum_"], d["variant"], d["struct_"], d["field"])
    m = re.match(r"(\w+)\(\)", expr)
    if m and m.group(1) in helpers:
        return helpers[m.group(1)]
    raise ValueError("cannot read AttrParams expression: %r" % expr[:200])


def _balanced(src, start):
    """src[start] == '(' -> index after the matching ')'"""
    depth = 0
    i = start
    while i < len(src):
        c = src[i]
        if c in "([{":
            depth += 1
        elif c in ")]}":
            depth -= 1
            if depth == 0:
                return i + 1
        i += 1
    raise ValueError("unbalanced")


def _split_args(s):
    out, depth, cur = [], 0, ""
    for c in s:
        if c in "([{":
            depth += 1
        elif c in ")]}":
            depth -= 1
        if c == "," and depth == 0:
            out.append(cur)
            cur = ""
        else:
            cur += c
    if cur.strip():
        out.append(cur)
    return out


def extract():
    """-> list of dict(trait, attr, module, entry, kind, allow=(enum, variant, struct, field))"""
    src_dir = os.path.join(common.REPO, "impl", "src")
    utils = open(os.path.join(src_dir, "utils.rs")).read()
    # the convenience constructors of State (utils.rs:306-363)
    ctor = {}
    for m in re.finditer(r"pub fn (new|with_\w+)<'arg_input>\((.*?)\)\s*->\s*Result<State<'arg_input>>\s*\{(.*?)\n    \}",
                         utils, re.S):
        name, body = m.group(1), m.group(3)
        cm = re.search(r"State::new_impl\(", body)
        if not cm:
            continue
        end = _balanced(body, cm.end() - 1)
        args = _split_args(body[cm.end():end - 1])
        ctor[name] = args[3].strip()          # input, trait_name, trait_attr, <AttrParams>, add_type_bound
    lib = open(os.path.join(src_dir, "lib.rs")).read()
    out = []
    for m in re.finditer(r"create_derive!\(\s*(.*?)\);", lib, re.S):
        args = [a.strip() for a in _split_args(m.group(1))]
        if len(args) < 4 or not args[0].startswith('"'):
            continue
        module, trait, attrs = args[1], args[2], [a for a in args[4:] if a]
        path = module.replace("r#", "").split("::")
        cand = [os.path.join(src_dir, *path) + ".rs", os.path.join(src_dir, *path, "mod.rs")]
        f = next((c for c in cand if os.path.exists(c)), None)
        if f is None:
            raise ValueError("module file of %s not found" % module)
        body = open(f).read()
        sm = re.search(r"State::(new|with_\w+)\(", body)
        if not sm:
            continue                           # typed attribute parsing (attr::ParseMultiple)
        entry = sm.group(1)
        helpers = {}
        for hm in re.finditer(r"fn (\w+)\(\)\s*->\s*AttrParams\s*\{(.*?)\n\}", body, re.S):
            helpers[hm.group(1)] = _attr_params(hm.group(2), {})
        if entry == "with_attr_params":
            end = _balanced(body, sm.end() - 1)
            cargs = _split_args(body[sm.end():end - 1])
            allow = _attr_params(cargs[3], helpers)
        else:
            expr = ctor[entry]
            allow = ([], [], [], []) if expr == "AttrParams::default()" else _attr_params(expr, {})
        if "assert_single_enabled_field" in body and "DeriveType::Enum" not in body:
            kind = "single"
        elif re.search(r"assert!\(\s*state\.derive_type == DeriveType::Enum", body):
            kind = "enum"
        elif "default_info.forward" in body:
            kind = "mul"
        elif trait == "Error":
            kind = "error"
        else:
            kind = "other"
        out.append({"trait": trait, "attr": attrs[0] if attrs else None, "module": module, "entry": entry,
                    "kind": kind, "allow": allow})
    return out


def attr_codes(table):
    """stable codes for the helper-attribute names of the legacy derives"""
    names = sorted(set(t["attr"] for t in table if t["attr"]))
    return {n: LEGACY_BASE + i for i, n in enumerate(names)}


def generate():
    table = extract()
    codes = attr_codes(table)

    def lst(v):
        return "[" + "; ".join(str(KW[x]) for x in v) + "]"
    rows = []
    for t in table:
        if t["attr"] is None:
            continue
        e, v, s, f = t["allow"]
        rows.append("  (%d, %d, (%s, %s, %s, %s))  (* %s: #[%s], State::%s, %s *)" % (
            codes[t["attr"]], KIND_CODE[t["kind"]], lst(e), lst(v), lst(s), lst(f), t["trait"], t["attr"],
            t["entry"], t["kind"]))
    # separators: every row but the last ends with ';' (comment stays at the end of the line)
    body = []
    for k, r in enumerate(rows):
        code, _, comment = r.partition("  (*")
        body.append(code + (";" if k + 1 < len(rows) else "") + "  (*" + comment)
    text = ("(** GENERATED by tools/lib/c17_gen.py from /repo/impl/src/{lib,utils,*}.rs - do not edit.\n"
            "    (attribute name code, kind of State use, (enum, variant, struct, field) allow-lists);\n"
            "    identifier codes as in C17/Model.v *)\n"
            "From Coq Require Import List NArith.\nImport ListNotations.\nOpen Scope N_scope.\n\n"
            "Definition c17_allow_table : list (N * N * (list N * list N * list N * list N)) := [\n"
            + "\n".join(body) + "\n].\n")
    path = os.path.join(common.COQ, "theories", "Gen", "C17Allow.v")
    old = open(path).read() if os.path.exists(path) else None
    if old != text:
        with open(path, "w") as fh:
            fh.write(text)
    return table, codes
