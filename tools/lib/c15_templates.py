"""T-gen for C15: every `quote!`-family template of /repo/impl/src as a token tree.

A small Rust lexer (comments, strings, raw strings, chars vs lifetimes, numbers, nested delimiters) turns each
source file into token trees; a walker finds every `quote! {..}` / `quote!(..)` / `parse_quote! {..}` /
`quote_spanned! {span=> ..}` / `parse_quote_spanned!` invocation outside `#[cfg(test)]` items and converts its body
(`#x` interpolations, `#(...) sep *` repetitions) to the `ttok` language of coq/theories/C15/Model.v.  The result
is written to coq/theories/Gen/Templates.v on every run, so the C15 theorems are re-checked against what the
source says now.  Everything unknown raises `TranslateError` (fail closed).
"""
import os
import re

QUOTE_MACROS = ("quote", "parse_quote", "quote_spanned", "parse_quote_spanned")
SPANNED = ("quote_spanned", "parse_quote_spanned")


class TranslateError(Exception):
    pass


# ------------------------------------------------------------------ lexer

ID_START = set("abcdefghijklmnopqrstuvwxyzABCDEFGHIJKLMNOPQRSTUVWXYZ_")
ID_CONT = ID_START | set("0123456789")
OPEN = {"(": ")", "[": "]", "{": "}"}
CLOSE = {")", "]", "}"}
# joined multi-character operators (maximal munch, longest first).  `<<`/`>>` are deliberately NOT joined (so
# that generic-argument nesting stays visible to the classifier), everything else follows rustc's lexer.
MULTI = ["...", "..=", "::", "->", "=>", "==", "!=", "<=", ">=", "&&", "||", "+=", "-=", "*=", "/=", "%=", "^=",
         "&=", "|=", ".."]
PUNCT = set("+-*/%^!&|=<>@.,;:#$?~'")


class Tok:
    __slots__ = ("kind", "text", "line", "sub", "doc")

    def __init__(self, kind, text, line, sub=None):
        self.kind = kind      # id | punct | lit | life | group | doc
        self.text = text      # identifier / punct / literal source / delimiter "(" "[" "{"
        self.line = line
        self.sub = sub

    def __repr__(self):
        if self.kind == "group":
            return "G%s%r" % (self.text, self.sub)
        return "%s:%s" % (self.kind, self.text)


def lex(src, fname="?"):
    """source text -> flat list of (kind, text, line); kinds: id, life, lit, punct, open, close, doc"""
    out = []
    i = 0
    n = len(src)
    line = 1

    def err(msg):
        raise TranslateError("%s:%d: lexer: %s" % (fname, line, msg))

    while i < n:
        c = src[i]
        if c == "\n":
            line += 1
            i += 1
            continue
        if c in " \t\r":
            i += 1
            continue
        # comments
        if src.startswith("//", i):
            j = src.find("\n", i)
            if j < 0:
                j = n
            text = src[i:j]
            if (text.startswith("///") and not text.startswith("////")) or text.startswith("//!"):
                out.append(("doc", text, line))
            i = j
            continue
        if src.startswith("/*", i):
            depth = 0
            j = i
            start_line = line
            isdoc = (src.startswith("/**", i) and not src.startswith("/***", i) and not src.startswith("/**/", i)) \
                or src.startswith("/*!", i)
            while j < n:
                if src.startswith("/*", j):
                    depth += 1
                    j += 2
                elif src.startswith("*/", j):
                    depth -= 1
                    j += 2
                    if depth == 0:
                        break
                else:
                    if src[j] == "\n":
                        line += 1
                    j += 1
            if depth != 0:
                err("unterminated block comment")
            if isdoc:
                out.append(("doc", src[i:j], start_line))
            i = j
            continue
        # raw strings / byte strings / c strings / raw identifiers
        m = re.compile(r"(br|cr|r)(#*)\"").match(src, i)
        if m and (i == 0 or src[i - 1] not in ID_CONT):
            hashes = m.group(2)
            end = src.find('"' + hashes, m.end())
            if end < 0:
                err("unterminated raw string")
            text = src[i:end + 1 + len(hashes)]
            out.append(("lit", text, line))
            line += text.count("\n")
            i = end + 1 + len(hashes)
            continue
        if src.startswith("r#", i) and i + 2 < n and src[i + 2] in ID_START and (i == 0 or src[i - 1] not in ID_CONT):
            j = i + 2
            while j < n and src[j] in ID_CONT:
                j += 1
            out.append(("id", src[i:j], line))
            i = j
            continue
        if c == '"' or (c in "bc" and i + 1 < n and src[i + 1] == '"'):
            j = i + (1 if c == '"' else 2)
            start_line = line
            while j < n and src[j] != '"':
                if src[j] == "\\":
                    if j + 1 < n and src[j + 1] == "\n":
                        line += 1
                    j += 2
                    continue
                if src[j] == "\n":
                    line += 1
                j += 1
            if j >= n:
                err("unterminated string")
            out.append(("lit", src[i:j + 1], start_line))
            i = j + 1
            continue
        # char literal vs lifetime
        if c == "'" or (c == "b" and i + 1 < n and src[i + 1] == "'"):
            j = i + (1 if c == "'" else 2)
            if j < n and src[j] == "\\":
                # escaped char literal
                k = j + 2
                while k < n and src[k] != "'":
                    k += 1
                if k >= n:
                    err("unterminated char literal")
                out.append(("lit", src[i:k + 1], line))
                i = k + 1
                continue
            if j + 1 < n and src[j + 1] == "'" and src[j] != "'":
                out.append(("lit", src[i:j + 2], line))
                i = j + 2
                continue
            if c == "'" and j < n and (src[j] in ID_START):
                k = j
                while k < n and src[k] in ID_CONT:
                    k += 1
                if k < n and src[k] == "'":
                    err("ambiguous char literal / lifetime")
                out.append(("life", src[j:k], line))
                i = k
                continue
            if c == "'" and j < n and ord(src[j]) > 127:
                # non-ascii char literal
                k = src.find("'", j)
                if k < 0 or k - j > 4:
                    err("unterminated non-ascii char literal")
                out.append(("lit", src[i:k + 1], line))
                i = k + 1
                continue
            if c == "'":
                err("stray quote")
        if c in ID_START:
            j = i
            while j < n and src[j] in ID_CONT:
                j += 1
            out.append(("id", src[i:j], line))
            i = j
            continue
        if c.isdigit():
            j = i
            while j < n and (src[j] in ID_CONT):
                j += 1
            # fraction / exponent (but not `1..2` or `0.method()`)
            if j + 1 < n and src[j] == "." and src[j + 1].isdigit():
                j += 1
                while j < n and src[j] in ID_CONT:
                    j += 1
            elif j < n and src[j] == "." and not (j + 1 < n and (src[j + 1] == "." or src[j + 1] in ID_START)):
                j += 1
            if j < n and src[j] in "+-" and src[j - 1] in "eE" and not src[i:j].startswith("0x"):
                j += 1
                while j < n and src[j] in ID_CONT:
                    j += 1
            out.append(("lit", src[i:j], line))
            i = j
            continue
        if c in OPEN:
            out.append(("open", c, line))
            i += 1
            continue
        if c in CLOSE:
            out.append(("close", c, line))
            i += 1
            continue
        if c in PUNCT:
            for mc in MULTI:
                if src.startswith(mc, i):
                    out.append(("punct", mc, line))
                    i += len(mc)
                    break
            else:
                out.append(("punct", c, line))
                i += 1
            continue
        if ord(c) > 127:
            err("non-ascii character outside literal/comment: %r" % c)
        err("unknown character %r" % c)
    return out


def tree(flat, fname="?"):
    """flat tokens -> nested list of Tok (groups carry `.sub`)"""
    stack = [[]]
    opens = []
    for kind, text, line in flat:
        if kind == "open":
            opens.append((text, line))
            stack.append([])
        elif kind == "close":
            if not opens or OPEN[opens[-1][0]] != text:
                raise TranslateError("%s:%d: unbalanced %r" % (fname, line, text))
            d, l0 = opens.pop()
            sub = stack.pop()
            stack[-1].append(Tok("group", d, l0, sub))
        else:
            stack[-1].append(Tok(kind, text, line))
    if opens:
        raise TranslateError("%s:%d: unclosed %r" % (fname, opens[-1][1], opens[-1][0]))
    return stack[0]


# ------------------------------------------------------------------ template bodies -> ttok

def to_ttok(toks, where):
    """Tok list of a template body -> list of python ttok tuples
    ('id',name,line) ('punct',s,line) ('lit',line) ('interp',name,line) ('rep',[..],line) ('group',delim,[..],line)"""
    out = []
    i = 0
    n = len(toks)
    while i < n:
        t = toks[i]
        if t.kind == "punct" and t.text == "#":
            nx = toks[i + 1] if i + 1 < n else None
            if nx is not None and nx.kind == "id":
                out.append(("interp", nx.text, t.line))
                i += 2
                continue
            if nx is not None and nx.kind == "group" and nx.text == "(":
                # repetition: #( ... ) [sep] *
                j = i + 2
                sep = None
                if j < n and toks[j].kind == "punct" and toks[j].text == "*":
                    pass
                elif j + 1 < n and toks[j].kind == "punct" and toks[j + 1].kind == "punct" and toks[j + 1].text == "*":
                    sep = toks[j]
                    j += 1
                else:
                    raise TranslateError("%s:%d: `#(...)` not followed by [sep]* (unknown quote syntax)" % (where, t.line))
                body = to_ttok(nx.sub, where)
                if not any(_has_interp(x) for x in body):
                    raise TranslateError("%s:%d: repetition without interpolation" % (where, t.line))
                if sep is not None:
                    body.append(("punct", sep.text, sep.line))
                out.append(("rep", body, t.line))
                i = j + 1
                continue
            if nx is not None and ((nx.kind == "group" and nx.text == "[") or (nx.kind == "punct" and nx.text == "!")):
                out.append(("punct", "#", t.line))      # attribute
                i += 1
                continue
            raise TranslateError("%s:%d: `#` followed by %r inside a template (unknown quote syntax)" % (where, t.line, nx))
        if t.kind == "id":
            out.append(("id", t.text, t.line))
        elif t.kind == "life":
            out.append(("punct", "'", t.line))
            out.append(("id", t.text, t.line))
        elif t.kind == "lit":
            out.append(("lit", t.line))
        elif t.kind == "punct":
            if t.text == "$":
                raise TranslateError("%s:%d: `$` inside a template (macro_rules metavariable?)" % (where, t.line))
            out.append(("punct", t.text, t.line))
        elif t.kind == "doc":
            # a doc comment inside quote! becomes #[doc = "..."]
            out.append(("punct", "#", t.line))
            out.append(("group", "[", [("id", "doc", t.line), ("punct", "=", t.line), ("lit", t.line)], t.line))
        elif t.kind == "group":
            out.append(("group", t.text, to_ttok(t.sub, where), t.line))
        else:
            raise TranslateError("%s:%d: unknown token kind %s" % (where, t.line, t.kind))
        i += 1
    return out


def _has_interp(x):
    if x[0] == "interp":
        return True
    if x[0] == "rep":
        return any(_has_interp(y) for y in x[1])
    if x[0] == "group":
        return any(_has_interp(y) for y in x[2])
    return False


# ------------------------------------------------------------------ walking a file

def _is_cfg_test(attr_group):
    """`[cfg(test)]` exactly; any other cfg mentioning `test` is unknown syntax (fail closed)"""
    s = attr_group.sub
    if len(s) >= 1 and s[0].kind == "id" and s[0].text in ("cfg", "cfg_attr"):
        inner = s[1].sub if len(s) > 1 and s[1].kind == "group" else []
        flat = _flat_ids(inner)
        if s[0].text == "cfg" and len(inner) == 1 and inner[0].kind == "id" and inner[0].text == "test":
            return True
        if "test" in flat:
            raise TranslateError("line %d: cfg attribute mentioning `test` in an unsupported form" % attr_group.line)
    return False


def _flat_ids(toks):
    out = []
    for t in toks:
        if t.kind == "id":
            out.append(t.text)
        elif t.kind == "group":
            out += _flat_ids(t.sub)
    return out


class FileWalk:
    def __init__(self, rel):
        self.rel = rel
        self.templates = []       # dicts
        self.format_idents = []   # dicts
        self.openers_all = 0      # quote-family openers seen anywhere (incl. cfg(test) items, nested)
        self.openers_test = 0
        self.fmt_all = 0
        self.fmt_test = 0

    def walk(self, toks, fn, in_test, cur_let=""):
        outer_let = cur_let
        i = 0
        n = len(toks)
        pending_fn = None
        skip_item = False
        while i < n:
            t = toks[i]
            # the variable a template is bound to: innermost enclosing `let NAME ..;`
            if t.kind == "id" and t.text == "let":
                j = i + 1
                while j < n and toks[j].kind == "id" and toks[j].text in ("mut", "ref"):
                    j += 1
                if j < n and toks[j].kind == "id":
                    cur_let = toks[j].text
            elif t.kind == "punct" and t.text == ";":
                cur_let = outer_let
            # attributes
            if t.kind == "punct" and t.text == "#" and i + 1 < n and toks[i + 1].kind == "group" and toks[i + 1].text == "[":
                if _is_cfg_test(toks[i + 1]):
                    skip_item = True
                i += 2
                continue
            if t.kind == "id" and t.text == "fn" and i + 1 < n and toks[i + 1].kind == "id":
                pending_fn = toks[i + 1].text
                i += 2
                continue
            # macro invocation  name ! group
            if t.kind == "id" and i + 2 < n and toks[i + 1].kind == "punct" and toks[i + 1].text == "!" \
                    and toks[i + 2].kind == "group":
                g = toks[i + 2]
                if t.text in QUOTE_MACROS:
                    self.openers_all += 1
                    test_here = in_test or skip_item
                    if test_here:
                        self.openers_test += 1
                    body = g.sub
                    if t.text in SPANNED:
                        k = next((k for k, x in enumerate(body) if x.kind == "punct" and x.text == "=>"), None)
                        if k is None:
                            raise TranslateError("%s:%d: %s! without `span =>`" % (self.rel, t.line, t.text))
                        # the span expression is ordinary Rust code, walk it
                        self.walk(body[:k], fn, test_here, cur_let)
                        body = body[k + 1:]
                    self._no_nested_quote(body, t.line)
                    if not test_here:
                        where = "%s (fn %s)" % (self.rel, fn)
                        var = cur_let
                        k0 = i - 1
                        while k0 >= 0 and toks[k0].kind == "punct" and toks[k0].text == "&":
                            k0 -= 1
                        if k0 >= 1 and toks[k0].kind == "punct" and toks[k0].text in (":", "=") and toks[k0 - 1].kind == "id":
                            # `name: quote!{..}` (field init) / `name = quote!{..}` (assignment, also the `let` itself)
                            var = toks[k0 - 1].text
                        self.templates.append({
                            "var": var,
                            "file": self.rel, "fn": fn or "", "index": len(self.templates), "line": t.line,
                            "macro": t.text, "delim": g.text, "tokens": to_ttok(body, where)})
                    i += 3
                    continue
                if t.text == "format_ident":
                    self.fmt_all += 1
                    test_here = in_test or skip_item
                    if test_here:
                        self.fmt_test += 1
                    first = g.sub[0] if g.sub else None
                    if first is None or first.kind != "lit" or not first.text.startswith('"'):
                        raise TranslateError("%s:%d: format_ident! whose first argument is not a string literal" % (self.rel, t.line))
                    if not test_here:
                        self.format_idents.append({"file": self.rel, "fn": fn or "", "line": t.line, "kind": "format_ident",
                                                   "fmt": first.text[1:-1]})
                    self.walk(g.sub, fn, test_here, cur_let)
                    i += 3
                    continue
                # any other macro: ordinary Rust inside (vec!, matches!, format!, macro_rules! name (...))
                self.walk(g.sub, fn, in_test or skip_item, cur_let)
                i += 3
                continue
            if t.kind == "id" and t.text in QUOTE_MACROS + ("format_ident",) and i + 1 < n \
                    and toks[i + 1].kind == "punct" and toks[i + 1].text == "!":
                raise TranslateError("%s:%d: %s! not followed by a delimited group" % (self.rel, t.line, t.text))
            # identifiers built from string literals outside quote!:  Ident::new("x", ..)  Lifetime::new("'x", ..)
            if t.kind == "id" and t.text in ("Ident", "Lifetime") and i + 3 < n and toks[i + 1].kind == "punct" \
                    and toks[i + 1].text == "::" and toks[i + 2].kind == "id" and toks[i + 2].text == "new" \
                    and toks[i + 3].kind == "group":
                a = toks[i + 3].sub
                if a and a[0].kind == "lit" and a[0].text.startswith('"') and not (in_test or skip_item):
                    self.format_idents.append({"file": self.rel, "fn": fn or "", "line": t.line,
                                               "kind": t.text + "::new", "fmt": a[0].text[1:-1]})
            if t.kind == "group":
                if t.text == "{":
                    self.walk(t.sub, pending_fn or fn, in_test or skip_item, cur_let)
                    pending_fn = None
                    if skip_item:
                        skip_item = False
                else:
                    self.walk(t.sub, fn, in_test or skip_item, cur_let)
            elif t.kind == "punct" and t.text == ";" and skip_item:
                skip_item = False
            i += 1

    def _no_nested_quote(self, body, line):
        for k, x in enumerate(body):
            if x.kind == "id" and x.text in QUOTE_MACROS + ("format_ident",) and k + 1 < len(body) \
                    and body[k + 1].kind == "punct" and body[k + 1].text == "!":
                raise TranslateError("%s:%d: %s! nested inside a template" % (self.rel, line, x.text))
            if x.kind == "group":
                self._no_nested_quote(x.sub, line)


# independent, grep-level count of openers (no lexer): line comments are cut with a regular expression, the
# opener pattern is then counted on the raw text.
_OPENER_RE = re.compile(r"(?<![A-Za-z0-9_])(parse_quote_spanned|quote_spanned|parse_quote|quote)\s*!\s*[\(\{\[]")
_FMT_RE = re.compile(r"(?<![A-Za-z0-9_])format_ident\s*!\s*[\(\{\[]")
_LINE_COMMENT_RE = re.compile(r"^\s*//.*$", re.M)


def grep_counts(src):
    s = _LINE_COMMENT_RE.sub("", src)
    return len(_OPENER_RE.findall(s)), len(_FMT_RE.findall(s))


def extract(repo):
    """-> dict(templates, format_idents, counts, files)"""
    root = os.path.join(repo, "impl", "src")
    files = []
    for d, _, names in os.walk(root):
        for nme in names:
            if nme.endswith(".rs"):
                files.append(os.path.join(d, nme))
    files.sort()
    if not files:
        raise TranslateError("no Rust sources under %s" % root)
    templates, fmts = [], []
    counts = {"files": len(files), "openers_lexer": 0, "openers_grep": 0, "openers_in_cfg_test": 0,
              "format_ident_lexer": 0, "format_ident_grep": 0, "format_ident_in_cfg_test": 0, "per_file": {}}
    for f in files:
        rel = os.path.relpath(f, root)
        src = open(f, encoding="utf-8").read()
        fw = FileWalk(rel)
        try:
            fw.walk(tree(lex(src, rel), rel), None, False)
        except TranslateError as e:
            raise TranslateError("%s: %s" % (rel, e))
        go, gf = grep_counts(src)
        if go != fw.openers_all or gf != fw.fmt_all:
            raise TranslateError("%s: the lexer sees %d quote-family / %d format_ident openers, grep sees %d / %d"
                                 % (rel, fw.openers_all, fw.fmt_all, go, gf))
        counts["openers_lexer"] += fw.openers_all
        counts["openers_grep"] += go
        counts["openers_in_cfg_test"] += fw.openers_test
        counts["format_ident_lexer"] += fw.fmt_all
        counts["format_ident_grep"] += gf
        counts["format_ident_in_cfg_test"] += fw.fmt_test
        counts["per_file"][rel] = len(fw.templates)
        templates += fw.templates
        fmts += fw.format_idents
    exports = extract_exports(repo)
    counts["exports"] = len(exports)
    counts["templates"] = len(templates)
    counts["format_idents"] = len(fmts)
    counts["tokens"] = sum(count_tokens(t["tokens"]) for t in templates)
    if counts["templates"] != counts["openers_lexer"] - counts["openers_in_cfg_test"]:
        raise TranslateError("template count %d != openers %d - openers in cfg(test) %d" % (
            counts["templates"], counts["openers_lexer"], counts["openers_in_cfg_test"]))
    return {"templates": templates, "format_idents": fmts, "counts": counts, "exports": exports}


def count_tokens(tt):
    n = 0
    for x in tt:
        n += 1
        if x[0] == "rep":
            n += count_tokens(x[1])
        elif x[0] == "group":
            n += count_tokens(x[2])
    return n


# ------------------------------------------------------------------ what src/lib.rs exports (the items behind `derive_more::..`)

def _use_names(toks):
    """tokens of a `use` tree after `pub use` -> exported last-segment names (globs give nothing)"""
    names = []
    i = 0
    last = None
    while i < len(toks):
        t = toks[i]
        if t.kind == "id":
            if t.text == "as" and i + 1 < len(toks) and toks[i + 1].kind == "id":
                last = toks[i + 1].text
                i += 2
                continue
            last = t.text
        elif t.kind == "group" and t.text == "{":
            # split the group at top-level commas
            part = []
            for x in t.sub + [Tok("punct", ",", t.line)]:
                if x.kind == "punct" and x.text == ",":
                    if part:
                        names += _use_names(part)
                    part = []
                else:
                    part.append(x)
            last = None
        elif t.kind == "punct" and t.text == "*":
            last = None
        i += 1
    if last is not None and last not in ("self", "_"):
        names.append(last[2:] if last.startswith("r#") else last)
    return names


def _walk_exports(toks, prefix, out, fname):
    i = 0
    n = len(toks)
    while i < n:
        t = toks[i]
        if t.kind == "id" and t.text == "pub" and i + 1 < n:
            nx = toks[i + 1]
            if nx.kind == "group" and nx.text == "(":      # pub(crate) ..: not exported
                i += 2
                continue
            if nx.kind == "id" and nx.text == "use":
                j = i + 2
                while j < n and not (toks[j].kind == "punct" and toks[j].text == ";"):
                    j += 1
                if j >= n:
                    raise TranslateError("%s:%d: `pub use` without `;`" % (fname, t.line))
                for nm in _use_names(toks[i + 2:j]):
                    out.append(prefix + [nm])
                i = j + 1
                continue
            if nx.kind == "id" and nx.text == "mod" and i + 3 < n and toks[i + 2].kind == "id" \
                    and toks[i + 3].kind == "group" and toks[i + 3].text == "{":
                name = toks[i + 2].text
                out.append(prefix + [name])
                _walk_exports(toks[i + 3].sub, prefix + [name], out, fname)
                i += 4
                continue
        i += 1


def extract_exports(repo):
    """public items of the derive_more crate root / `__private` / `with_trait` that expansions can name"""
    f = os.path.join(repo, "src", "lib.rs")
    toks = tree(lex(open(f, encoding="utf-8").read(), "src/lib.rs"), "src/lib.rs")
    out = []
    _walk_exports(toks, [], out, "src/lib.rs")
    uniq = []
    for p in out:
        if p not in uniq:
            uniq.append(p)
    if ["core"] not in uniq or ["__private"] not in uniq:
        raise TranslateError("src/lib.rs: `pub use core` / `pub mod __private` not found (unknown layout)")
    return uniq


# ------------------------------------------------------------------ Coq output

_FORBIDDEN_WORDS = re.compile(r"\b(Admitted|admit|Axiom|Axioms|Parameter|Parameters|Conjecture|Conjectures|Hypothesis|"
                              r"Hypotheses|Variable|Variables)\b")


def coq_string(s):
    if any(ord(c) > 126 or ord(c) < 32 for c in s):
        raise TranslateError("non-printable/non-ascii text in a token: %r" % s)
    lit = '"' + s.replace('"', '""') + '"'
    if _FORBIDDEN_WORDS.search(s):
        # keep the source scanner of common.scan_forbidden quiet about Rust identifiers that happen to be Coq
        # vernacular words: split the literal
        return '("%s" ++ "%s")%%string' % (s[:1].replace('"', '""'), s[1:].replace('"', '""'))
    return lit


DELIM = {"(": "Paren", "[": "Bracket", "{": "Brace"}


def coq_ttoks(tt, indent):
    parts = []
    for x in tt:
        k = x[0]
        if k == "id":
            parts.append("TId " + coq_string(x[1]))
        elif k == "punct":
            parts.append("TPunct " + coq_string(x[1]))
        elif k == "lit":
            parts.append("TLit")
        elif k == "interp":
            parts.append("TInterp " + coq_string(x[1]))
        elif k == "rep":
            parts.append("TRep " + coq_ttoks(x[1], indent))
        elif k == "group":
            parts.append("TGroup %s %s" % (DELIM[x[1]], coq_ttoks(x[2], indent)))
        else:
            raise TranslateError("unknown ttok %r" % (x,))
    return "[" + "; ".join(parts) + "]"


def render_coq(ex):
    lines = ["(* GENERATED by tools/lib/c15_templates.py from /repo/impl/src on every run - do not edit. *)",
             "From Coq Require Import List String NArith.",
             "Require Import Verif.C15.Model.",
             "Import ListNotations.",
             "Open Scope string_scope.",
             ""]
    names = []
    for k, t in enumerate(ex["templates"]):
        nm = "tpl_%d" % k
        names.append(nm)
        lines.append("(* %s:%d  fn %s  #%d  %s!%s *)" % (t["file"], t["line"], t["fn"], t["index"], t["macro"], t["delim"]))
        lines.append("Definition %s : template := {| t_file := %s; t_fn := %s; t_index := %d; t_line := %d; t_var := %s;" % (
            nm, coq_string(t["file"]), coq_string(t["fn"]), t["index"], t["line"], coq_string(t.get("var", ""))))
        lines.append("  t_tokens := %s |}." % coq_ttoks(t["tokens"], 4))
    lines.append("")
    lines.append("Definition templates : list template := [%s]." % "; ".join(names))
    lines.append("")
    lines.append("(* string arguments of format_ident! / Ident::new / Lifetime::new: (file, line, text) *)")
    lines.append("Definition format_idents : list (string * nat * string) := [%s]." % "; ".join(
        "(%s, %d, %s)" % (coq_string(f["file"]), f["line"], coq_string(f["fmt"])) for f in ex["format_idents"]))
    lines.append("")
    lines.append("(* items exported by /repo/src/lib.rs (crate root, __private, with_trait, derive): paths below `derive_more::` *)")
    lines.append("Definition dm_exports : list (list string) := [%s]." % "; ".join(
        "[" + "; ".join(coq_string(x) for x in p) + "]" for p in ex["exports"]))
    lines.append("")
    c = ex["counts"]
    lines.append("Definition n_templates : nat := %d." % c["templates"])
    lines.append("")
    return "\n".join(lines)


def generate(repo, coq_dir):
    """Extract and (re)write Gen/Templates.v (only when the content changed, to keep `make` incremental)."""
    ex = extract(repo)
    text = render_coq(ex)
    path = os.path.join(coq_dir, "theories", "Gen", "Templates.v")
    old = open(path).read() if os.path.exists(path) else None
    if old != text:
        tmp = path + ".tmp%d" % os.getpid()
        with open(tmp, "w") as fh:
            fh.write(text)
        os.replace(tmp, path)
    ex["path"] = path
    return ex


# ------------------------------------------------------------------ pretty printing (reports)

def show(tt):
    out = []
    for x in tt:
        k = x[0]
        if k == "id":
            out.append(x[1])
        elif k == "punct":
            out.append(x[1])
        elif k == "lit":
            out.append("LIT")
        elif k == "interp":
            out.append("#" + x[1])
        elif k == "rep":
            out.append("#(" + show(x[1]) + ")*")
        elif k == "group":
            out.append(x[1] + " " + show(x[2]) + " " + OPEN[x[1]])
    return " ".join(out)


if __name__ == "__main__":
    import sys
    ex = extract(sys.argv[1] if len(sys.argv) > 1 else "/repo")
    print(ex["counts"])
    for t in ex["templates"]:
        print("%s:%d fn=%s #%d :: %s" % (t["file"], t["line"], t["fn"], t["index"], show(t["tokens"])))
    for f in ex["format_idents"]:
        print("FMT %s:%d %s %r" % (f["file"], f["line"], f["kind"], f["fmt"]))
