"""C18 translator (T-gen): inventory of every potential internal-failure site of /repo/impl/src.

A small Rust lexer (line/nested block comments, strings, raw strings, byte strings, chars vs
lifetimes, numbers) walks every `*.rs` under impl/src, skips `#[cfg(test)] mod x { .. }` blocks and
the bodies of quote-like macros (token templates: code that is *emitted*, not run by the expander),
and lists every site of the following kinds together with its file, enclosing `fn`, and a hash of
its normalised (white-space and line-number independent) text:

  unreachable unimplemented todo panic assert      the macro families (assert = assert!/assert_eq!/
                                                    assert_ne!/debug_assert*!)
  unwrap expect                                     `.unwrap()` / `.expect(`
  index slice                                       `e[i]` / `e[a..b]` in expression position
  arith                                             binary `-` `/` `%` `+` `*` `<<` `>>`, their compound assignments and unary `-`, on
                                                    operands that are not both literals (`+` of type bounds is recognised and skipped)
  cast                                              `as <integer type / char>`
  parse_quote format_ident ident_new                macros/functions of syn/quote that panic on bad input
  vecop                                             `.remove( .swap_remove( .split_at( .split_off( .drain(
                                                     .copy_from_slice( .truncate(` and syn's `.push_value( .push_punct(`
  recursion                                         a `fn` that calls itself by name (unbounded unless argued)

`generate()` rewrites coq/theories/Gen/PanicSiteList.v (a list of records) and returns the sites.
The classification of each site lives in the hand-written coq/theories/C18/Model.v.
"""
import hashlib
import os
import re

from lib import common

KEYWORDS = {
    "as", "break", "const", "continue", "crate", "else", "enum", "extern", "false", "fn", "for", "if", "impl",
    "in", "let", "loop", "match", "mod", "move", "mut", "pub", "ref", "return", "static", "struct",
    "super", "trait", "true", "type", "unsafe", "use", "where", "while", "async", "await", "dyn", "box", "yield",
}
# `self`/`Self` deliberately not keywords here: `self[0]` is an indexing expression.

QUOTE_MACROS = {"quote", "quote_spanned", "parse_quote", "parse_quote_spanned"}
PANIC_MACROS = {"unreachable": "unreachable", "unimplemented": "unimplemented", "todo": "todo", "panic": "panic",
                "assert": "assert", "assert_eq": "assert", "assert_ne": "assert", "debug_assert": "assert",
                "debug_assert_eq": "assert", "debug_assert_ne": "assert"}
VECOPS = {"remove", "swap_remove", "split_at", "split_at_mut", "split_off", "drain", "copy_from_slice", "truncate",
          "push_value", "push_punct"}      # the last two: syn::punctuated::Punctuated asserts its comma discipline
# same-named inner calls of these dispatch on the type of a component (finite type structure), not on `Self`
DELEGATING_TRAIT_METHODS = {"parse", "to_tokens", "next", "default", "from", "into", "fmt", "eq", "hash", "clone"}
INT_TYPES = {"u8", "u16", "u32", "u64", "u128", "usize", "i8", "i16", "i32", "i64", "i128", "isize", "char"}

_ID_START = re.compile(r"[A-Za-z_\u0080-\U0010ffff]")
_ID_CONT = re.compile(r"[A-Za-z0-9_\u0080-\U0010ffff]")

MULTI = ["..=", "...", "<<=", ">>=", "::", "->", "=>", "..", "-=", "/=", "%=", "+=", "*=", "==", "!=", "<=", ">=",
         "&&", "||"]


class Tok:
    __slots__ = ("k", "t", "line", "pos")

    def __init__(self, k, t, line, pos=-1):
        self.k, self.t, self.line, self.pos = k, t, line, pos

    def __repr__(self):
        return "%s:%r@%d" % (self.k, self.t, self.line)


def lex(src):
    """-> list of Tok; kinds: id, life, char, str, num, p (punctuation), open, close"""
    toks = []
    i, n, line = 0, len(src), 1
    while i < n:
        c = src[i]
        if c == "\n":
            line += 1
            i += 1
            continue
        if c.isspace():
            i += 1
            continue
        if src.startswith("//", i):
            j = src.find("\n", i)
            i = n if j < 0 else j
            continue
        if src.startswith("/*", i):
            depth, j = 1, i + 2
            while j < n and depth:
                if src.startswith("/*", j):
                    depth += 1
                    j += 2
                elif src.startswith("*/", j):
                    depth -= 1
                    j += 2
                else:
                    if src[j] == "\n":
                        line += 1
                    j += 1
            i = j
            continue
        # raw strings / byte strings / raw identifiers
        m = re.match(r"(br|rb|r|b|c|cr)?(#*)\"", src[i:i + 40]) if c in "brc\"" else None
        if m and (m.group(1) or "") in ("", "b", "c") and m.group(2) == "":
            # ordinary (byte/c) string with escapes
            j = i + len(m.group(0))
            start_line = line
            while j < n and src[j] != '"':
                if src[j] == "\\":
                    j += 1
                if j < n and src[j] == "\n":
                    line += 1
                j += 1
            toks.append(Tok("str", src[i:j + 1], start_line, i))
            i = j + 1
            continue
        if m and "r" in (m.group(1) or ""):
            hashes = m.group(2)
            j = i + len(m.group(0))
            end = src.find('"' + hashes, j)
            end = n if end < 0 else end
            toks.append(Tok("str", src[i:end + 1 + len(hashes)], line, i))
            line += src.count("\n", i, end)
            i = end + 1 + len(hashes)
            continue
        if c == "b" and i + 1 < n and src[i + 1] == "'":
            i += 1
            c = "'"
            # fall through to the char case (a byte char is never a lifetime)
            j = i + 1
            if src[j] == "\\":
                j += 2
                while src[j] != "'":
                    j += 1
            else:
                j += 1
            toks.append(Tok("char", "b" + src[i:j + 1], line, i))
            i = j + 1
            continue
        if c == "'":
            # char literal or lifetime:  '\x'  'c'  vs  'ident (not followed by a closing quote)
            if i + 1 < n and src[i + 1] == "\\":
                j = i + 2
                if src[j] == "u":
                    j = src.find("}", j)
                j += 1
                while src[j] != "'":
                    j += 1
                toks.append(Tok("char", src[i:j + 1], line, i))
                i = j + 1
                continue
            if i + 2 < n and src[i + 2] == "'":
                toks.append(Tok("char", src[i:i + 3], line, i))
                i += 3
                continue
            j = i + 1
            while j < n and _ID_CONT.match(src[j]):
                j += 1
            toks.append(Tok("life", src[i:j], line, i))
            i = j
            continue
        if _ID_START.match(c):
            j = i + 1
            if src.startswith("r#", i) and i + 2 < n and _ID_START.match(src[i + 2]):
                j = i + 3
            while j < n and _ID_CONT.match(src[j]):
                j += 1
            toks.append(Tok("id", src[i:j], line, i))
            i = j
            continue
        if c.isdigit():
            j = i + 1
            while j < n and (src[j].isalnum() or src[j] == "_" or
                             (src[j] == "." and j + 1 < n and src[j + 1].isdigit() and "." not in src[i:j])):
                j += 1
            toks.append(Tok("num", src[i:j], line, i))
            i = j
            continue
        if c in "([{":
            toks.append(Tok("open", c, line, i))
            i += 1
            continue
        if c in ")]}":
            toks.append(Tok("close", c, line, i))
            i += 1
            continue
        for mp in MULTI:
            if src.startswith(mp, i):
                toks.append(Tok("p", mp, line, i))
                i += len(mp)
                break
        else:
            toks.append(Tok("p", c, line, i))
            i += 1
    return toks


def match_groups(toks):
    """partner[i] = index of the matching bracket (or -1)"""
    partner = [-1] * len(toks)
    stack = []
    for i, t in enumerate(toks):
        if t.k == "open":
            stack.append(i)
        elif t.k == "close" and stack:
            j = stack.pop()
            partner[i] = j
            partner[j] = i
    return partner


def _norm(toks):
    return " ".join(t.t for t in toks)


def _is_cfg_test(toks, i, partner):
    """toks[i] is '#': `# [ cfg ( test ) ]`"""
    return (i + 6 < len(toks) and toks[i + 1].t == "[" and toks[i + 2].t == "cfg" and toks[i + 3].t == "(" and
            toks[i + 4].t == "test" and toks[i + 5].t == ")" and toks[i + 6].t == "]")


def scan_file(rel, src):
    toks = lex(src)
    partner = match_groups(toks)
    n = len(toks)
    skip = [False] * n           # inside cfg(test) modules or quote templates

    # -- cfg(test) mod blocks (and cfg(test) fns / impls, conservatively: any braced item)
    i = 0
    while i < n:
        if toks[i].t == "#" and _is_cfg_test(toks, i, partner):
            j = i + 7
            # further attributes
            while j < n and toks[j].t == "#" and j + 1 < n and toks[j + 1].t == "[":
                j = partner[j + 1] + 1
            # item header up to `{` or `;`
            k = j
            while k < n and toks[k].t not in ("{", ";"):
                k += 1
            if k < n and toks[k].t == "{" and partner[k] > 0:
                for x in range(i, partner[k] + 1):
                    skip[x] = True
                i = partner[k] + 1
                continue
        i += 1

    # -- enclosing fn of every token (closures belong to the enclosing fn)
    fn_of = [""] * n
    stack = []                   # (close_index, name)
    pending = None               # fn name waiting for its body brace
    for i, t in enumerate(toks):
        while stack and i > stack[-1][0]:
            stack.pop()
        if t.k == "id" and t.t == "fn" and i + 1 < n and toks[i + 1].k == "id":
            pending = toks[i + 1].t
        fn_of[i] = stack[-1][1] if stack else ""
        if pending is not None and t.t == "{" and partner[i] > 0 and not _inside_paren(toks, partner, i):
            stack.append((partner[i], pending))
            pending = None
        elif pending is not None and t.t == ";" and not _inside_paren(toks, partner, i):
            pending = None       # a declaration without body (trait method)

    sites = []

    def add(kind, lo, hi, at):
        if skip[at]:
            return
        text = _norm(toks[lo:hi + 1])
        site = {"file": rel, "fn": fn_of[at] or "<top>", "kind": kind, "text": text, "line": toks[at].line,
                "line_lo": toks[lo].line, "line_hi": toks[hi].line}
        if kind == "arith" and site["fn"] == "validate_type":
            site["branch"] = _match_branch(toks, fn_of, at)
            site["operands"] = (_norm(toks[lo:at]), _norm(toks[at + 1:hi + 1]), toks[at].t)
        sites.append(site)

    def chain_start(j):
        """first token of the postfix chain (`a.b::<T>(x)?[i].c`) whose last token is toks[j]"""
        k = j
        while k >= 0:
            t = toks[k]
            if t.t == "?":
                k -= 1
                continue
            if t.k == "close" and partner[k] >= 0:
                o = partner[k]
                b = toks[o - 1] if o > 0 else None
                if b is not None and b.t == "!" and o >= 2 and toks[o - 2].k == "id":
                    k = o - 2                      # macro call  name!(..)
                elif b is not None and (b.k == "close" or b.t == "?" or
                                        (b.k == "id" and b.t not in KEYWORDS) or
                                        (b.t == ">" and _turbofish_open(toks, o - 1) >= 0)):
                    k = o - 1                      # call / index applied to a preceding chain
                    continue
                else:
                    return o                       # a parenthesised / block primary
            elif t.t == ">" and _turbofish_open(toks, k) >= 0:
                k = _turbofish_open(toks, k) - 1   # now at `::`
                k -= 1
                continue
            elif not (t.k in ("id", "num", "str", "char") and t.t not in KEYWORDS - {"crate", "super"}):
                return k + 1
            # toks[k] is a path/field segment: continue over a preceding `.` or `::`
            if k >= 1 and toks[k - 1].t in (".", "::"):
                if k >= 2 and (toks[k - 2].k in ("id", "num", "str", "char", "close") or toks[k - 2].t in ("?", ">")):
                    k -= 2
                    continue
                return k - 1 if toks[k - 1].t == "::" else k
            return k
        return 0

    # -- mark quote template bodies
    for i, t in enumerate(toks):
        if t.k == "id" and t.t in QUOTE_MACROS and i + 2 < n and toks[i + 1].t == "!" and toks[i + 2].k == "open" \
                and partner[i + 2] > 0:
            for x in range(i + 3, partner[i + 2]):
                skip[x] = True

    for i, t in enumerate(toks):
        if skip[i]:
            continue
        prev = toks[i - 1] if i > 0 else None
        nxt = toks[i + 1] if i + 1 < n else None
        # macros
        if t.k == "id" and nxt is not None and nxt.t == "!" and i + 2 < n and toks[i + 2].k == "open" \
                and partner[i + 2] > 0:
            if t.t in PANIC_MACROS:
                add(PANIC_MACROS[t.t], i, partner[i + 2], i)
            elif t.t in ("parse_quote", "parse_quote_spanned"):
                add("parse_quote", chain_start_stmt(toks, partner, i), partner[i + 2], i)
            elif t.t == "format_ident":
                add("format_ident", i, partner[i + 2], i)
        # Ident::new(
        if t.k == "id" and t.t == "new" and prev is not None and prev.t == "::" and i >= 2 and toks[i - 2].t in ("Ident", "Lifetime") \
                and nxt is not None and nxt.t == "(":
            add("ident_new", chain_start(i), partner[i + 1], i)
        # method-call sites
        if t.k == "id" and prev is not None and prev.t == "." and nxt is not None and nxt.t == "(" and partner[i + 1] > 0:
            if t.t == "unwrap" and partner[i + 1] == i + 2:
                add("unwrap", chain_start(i), i + 2, i)
            elif t.t == "expect":
                add("expect", chain_start(i), partner[i + 1], i)
            elif t.t in VECOPS:
                add("vecop", chain_start(i), partner[i + 1], i)
        # index / slice
        if t.t == "[" and partner[i] > 0 and prev is not None and (
                (prev.k == "id" and prev.t not in KEYWORDS) or prev.t in (")", "]", "?")):
            # `#[`/`#![` (attributes) and `name![` (macros) have prev `#`/`!`, so they do not get here
            inner = toks[i + 1:partner[i]]
            depth = 0
            is_slice = False
            for u in inner:
                if u.k == "open":
                    depth += 1
                elif u.k == "close":
                    depth -= 1
                elif depth == 0 and u.t in ("..", "..="):
                    is_slice = True
            add("slice" if is_slice else "index", chain_start(i - 1), partner[i], i)
        # arithmetic
        if t.k == "p" and t.t in ("-", "/", "%", "+", "*", "<", ">", "-=", "/=", "%=", "+=", "*=", "<<=", ">>="):
            op = t.t
            operand_before = prev is not None and (prev.k in ("id", "num", "char", "str") and prev.t not in KEYWORDS - {"self"}
                                                   or prev.t in (")", "]", "?"))
            width = 1
            is_site = False
            if op in ("-=", "/=", "%=", "+=", "*=", "<<=", ">>="):
                is_site = True
            elif op in ("-", "/", "%"):
                if operand_before:
                    is_site = True
                elif op == "-" and nxt is not None and nxt.k != "num":
                    is_site = True                       # unary minus on a non-literal
            elif op == "+":
                is_site = operand_before and not _is_bound_plus(toks, i)
            elif op == "*":
                is_site = operand_before and nxt is not None and (nxt.k in ("id", "num") or nxt.t in ("(", "-", "&", "*")) \
                    and not (nxt.k == "id" and nxt.t in KEYWORDS - {"self"})
            elif op in ("<", ">"):
                # shifts: two glued angle brackets that are not generic brackets
                if nxt is not None and nxt.t == op and nxt.pos == t.pos + 1 and operand_before \
                        and not _is_generic_angle(toks, i, op):
                    is_site, width, op = True, 2, op * 2
            if is_site:
                if operand_before or op.endswith("="):
                    lo = chain_start(i - 1)
                else:
                    lo = i
                hi = _operand_end(toks, partner, i + width)
                left_lit = lo == i - 1 and toks[lo].k == "num"
                right_lit = hi == i + width and toks[hi].k == "num"
                if not (left_lit and right_lit and lo != i):
                    add("arith", lo, hi, i)
        # casts
        if t.k == "id" and t.t == "as" and nxt is not None and nxt.k == "id" and nxt.t in INT_TYPES \
                and prev is not None and prev.t not in ("<",) and not _in_use_or_qpath(toks, i):
            add("cast", chain_start(i - 1), i + 1, i)

    # -- recursion: a call spelled with the name of the enclosing fn.  `x.f(..)` / `P::f(..)` inside `fn f`
    #    is skipped for the std/syn/quote trait methods that delegate to a component of another type.
    for i, t in enumerate(toks):
        if skip[i] or t.k != "id":
            continue
        f = fn_of[i]
        if not f or t.t != f or i + 1 >= n or toks[i + 1].t != "(" or partner[i + 1] < 0:
            continue
        prev = toks[i - 1] if i else None
        if prev is not None and prev.t == "fn":
            continue
        qualified = prev is not None and prev.t in (".", "::")
        on_self = qualified and i >= 2 and toks[i - 2].t in ("self", "Self") and \
            (i < 3 or toks[i - 3].t not in (".", "::"))
        if qualified and not on_self and f in DELEGATING_TRAIT_METHODS:
            continue
        lo = chain_start(i) if qualified else i
        add("recursion", lo, partner[i + 1], i)

    # `if` / `while` conditions of the functions that contain arithmetic / index / slice / Punctuated-push sites
    # (the guards of those sites)
    arith_fns = set(st["fn"] for st in sites if st["kind"] in ("arith", "vecop", "index", "slice", "unreachable", "unwrap",
                                                              "expect", "unimplemented"))
    guards = {}
    for i, t in enumerate(toks):
        if skip[i] or t.k != "id" or t.t not in ("if", "while") or fn_of[i] not in arith_fns:
            continue
        j = i + 1
        while j < n and not (toks[j].t == "{" and partner[j] > 0):
            if toks[j].k == "open" and partner[j] > 0:
                j = partner[j]
            j += 1
        guards.setdefault(fn_of[i], []).append(_norm(toks[i + 1:j]))
    for f, g in guards.items():
        GUARDS.setdefault("%s|%s" % (rel, f), []).extend(g)
    # ... and their `let` statements (the validation passes an `unreachable!()` / `unwrap()` relies on): the first 120
    # characters of the normalised statement plus a hash of all of it
    for i, t in enumerate(toks):
        if skip[i] or t.k != "id" or t.t != "let" or fn_of[i] not in arith_fns or (i and toks[i - 1].t in ("if", "while")):
            continue
        j = i + 1
        while j < n and toks[j].t != ";":
            if toks[j].k == "open" and partner[j] > 0:
                j = partner[j]
            j += 1
        text = _norm(toks[i:j])
        LETS.setdefault("%s|%s" % (rel, fn_of[i]), []).append(
            "%s #%s" % (text[:120], hashlib.sha1(text.encode()).hexdigest()[:10]))

    # ordinals for identical (file, fn, kind, text)
    seen = {}
    for s in sites:
        h = hashlib.sha1(s["text"].encode()).hexdigest()[:8]
        base = "%s|%s|%s|%s" % (s["file"], s["fn"], s["kind"], h)
        k = seen.get(base, 0)
        seen[base] = k + 1
        s["hash"] = h
        s["ord"] = k
        s["key"] = base + ("" if k == 0 else "#%d" % k)
    return sites


GUARDS = {}          # "file|fn" -> [condition text]; filled by scan_file
LETS = {}            # "file|fn" -> [`let` statement text (120 chars + hash)]


class _AParser:
    """arithmetic site text -> Gallina term of type aexp (Gen/PanicSiteList.v)"""
    PREC = {"<<": 1, ">>": 1, "+": 2, "-": 2, "*": 3, "/": 3, "%": 3}
    OPN = {"+": "APlus", "-": "AMinus", "*": "AMul", "/": "ADiv", "%": "ARem", "<<": "AShl", ">>": "AShr"}

    def __init__(self, toks):
        # re-glue shifts
        out = []
        for t in toks:
            if out and t in ("<", ">") and out[-1] == t and (len(out) < 2 or out[-2] != t):
                out[-1] = t * 2
            else:
                out.append(t)
        self.t, self.i = out, 0

    def peek(self):
        return self.t[self.i] if self.i < len(self.t) else None

    def parse(self):
        try:
            # compound assignment  x op= e
            if len(self.t) >= 3 and self.t[1] in ("+=", "-=", "*=", "/=", "%=", "<<=", ">>=") and re.match(r"^[A-Za-z_]\w*$", self.t[0]):
                x, o = self.t[0], self.t[1][:-1]
                self.i = 2
                e = self.expr(0)
                if self.i != len(self.t):
                    return "AUnknown"
                return '(AAssign %s "%s" %s)' % (self.OPN[o], x, e)
            e = self.expr(0)
            return e if self.i == len(self.t) else "AUnknown"
        except Exception:
            return "AUnknown"

    def expr(self, minp):
        l = self.atom()
        while self.peek() in self.PREC and self.PREC[self.peek()] > minp:
            o = self.peek()
            self.i += 1
            r = self.expr(self.PREC[o])
            l = "(ABin %s %s %s)" % (self.OPN[o], l, r)
        return l

    def atom(self):
        t = self.peek()
        if t == "(":
            self.i += 1
            e = self.expr(0)
            if self.peek() != ")":
                raise ValueError
            self.i += 1
            return e
        if t == "-":
            self.i += 1
            return "(ANeg %s)" % self.atom()
        if t is not None and re.match(r"^\d[\d_]*$", t) and int(t.replace("_", "")) < 100000:
            self.i += 1
            return "(AConst %d)" % int(t.replace("_", ""))
        if t is not None and re.match(r"^[A-Za-z_]\w*$", t) and t not in KEYWORDS - {"self"}:
            name = [t]
            self.i += 1
            while self.peek() == "." and self.i + 1 < len(self.t) and re.match(r"^[A-Za-z_]\w*$", self.t[self.i + 1]):
                if self.t[self.i + 1] == "len" and self.t[self.i + 2:self.i + 4] == ["(", ")"]:
                    self.i += 4
                    return '(ALen "%s")' % ".".join(name)
                name.append(self.t[self.i + 1])
                self.i += 2
            if self.peek() in ("(", "[", ".", "::", "!"):
                raise ValueError
            return '(AVar "%s")' % ".".join(name)
        raise ValueError


def _is_bound_plus(toks, i):
    """the `+` of `T: A + B`, `dyn A + 'a`, `impl Iterator<..> + Clone` (a type bound, not an addition)"""
    prev, nxt = toks[i - 1], toks[i + 1] if i + 1 < len(toks) else None
    if nxt is None:
        return False
    if nxt.k == "life" or nxt.t == "?":
        return True
    if prev.t == ">":                                   # `x > + y` is not an expression
        return True
    cap = lambda t: t.k == "id" and t.t[:1].isupper()
    if cap(prev) and cap(nxt):
        # nearest structural token before: a bound list follows `:`, `dyn`, `impl`, `where` or another bound `+`
        j = i - 1
        while j >= 0 and i - j < 40:
            u = toks[j].t
            if u in (":", "dyn", "impl", "where"):
                return True
            if u in ("=", "(", "{", ";", "return", "let", "==", "=>", "[") or toks[j].k in ("num", "str"):
                return False
            j -= 1
    return False


def _is_generic_angle(toks, i, op):
    """toks[i], toks[i+1] are `<<` or `>>`: are they generic brackets (`Vec<<T as X>::Y>`, `Vec<Vec<_>>`)?"""
    if op == "<":
        j = i + 2
        depth = 2
        while j < len(toks) and j - i < 40:
            u = toks[j].t
            if u in (";", "{", "}"):
                return False
            if u == "as":
                return True
            if u == "<":
                depth += 1
            elif u == ">":
                depth -= 1
                if depth == 0:
                    return True
            j += 1
        return False
    # `>>`: generic if two unmatched `<` precede it in the statement
    need, j = 2, i - 1
    while j >= 0 and i - j < 80:
        u = toks[j].t
        if u in (";", "{", "}"):
            break
        if u == ">":
            need += 1
        elif u == "<":
            need -= 1
            if need == 0:
                return True
        j -= 1
    return False


def _match_branch(toks, fn_of, at):
    """the match arm of utils.rs validate_type a token belongs to: the nearest preceding `Ordering::Greater|Less|Equal`
    pattern or `other if` guard inside the same fn"""
    f = fn_of[at]
    j = at
    while j >= 2 and fn_of[j] == f:
        if toks[j].t in ("Greater", "Less", "Equal") and toks[j - 1].t == "::" and toks[j - 2].t == "Ordering" \
                and j + 1 < len(toks) and toks[j + 1].t == "=>":
            return toks[j].t
        if toks[j].t == "other" and toks[j + 1].t == "if":
            return "Other"
        j -= 1
    return "None"


def _vt_operand(text):
    text = text.strip()
    while text.startswith("(") and text.endswith(")"):
        text = text[1:-1].strip()
    if text == "self . len ( )":
        return "VSelfLen"
    if text == "elems . len ( )":
        return "VElemsLen"
    if text.isdigit() and int(text) < 1000:
        return "(VConst %s)" % text
    return "VUnknown"


def _inside_paren(toks, partner, i):
    """is token i nested in a ( or [ group that opened after the current fn header started?
    (closure bodies / const-generic blocks inside the signature: `fn f(x: [u8; { N }])`)"""
    # walk back to the nearest unmatched open bracket
    depth = 0
    j = i - 1
    while j >= 0:
        t = toks[j]
        if t.k == "close":
            depth += 1
        elif t.k == "open":
            if depth == 0:
                return t.t in ("(", "[")
            depth -= 1
        elif t.t == "fn" and depth == 0:
            return False
        j -= 1
    return False


def _turbofish_open(toks, k):
    """toks[k] == '>' : find the matching '<' if it is preceded by '::' (a turbofish); else -1"""
    depth = 0
    j = k
    while j >= 0 and k - j < 60:
        t = toks[j].t
        if t == ">":
            depth += 1
        elif t == "<":
            depth -= 1
            if depth == 0:
                return j if j > 0 and toks[j - 1].t == "::" else -1
        elif t in (";", "{", "}"):
            return -1
        j -= 1
    return -1


def chain_start_stmt(toks, partner, i):
    return i


def _operand_end(toks, partner, j):
    """end index of the right operand starting at j (a prefix-op / postfix chain)"""
    n = len(toks)
    while j < n and toks[j].t in ("-", "!", "&", "*"):
        j += 1
    k = j
    last = j
    while k < n:
        t = toks[k]
        if t.k == "open" and (k == j or toks[k - 1].k in ("id", "close") or toks[k - 1].t in ("!",)):
            if partner[k] < 0:
                break
            last = partner[k]
            k = partner[k] + 1
            continue
        if t.k in ("id", "num", "str", "char") and (k == j or toks[k - 1].t in (".", "::")):
            if t.t in KEYWORDS - {"crate", "super"}:
                break
            last = k
            k += 1
            continue
        if t.t in (".", "::", "?", "!"):
            last = k
            k += 1
            continue
        break
    return min(last, n - 1)


def _in_use_or_qpath(toks, i):
    """`use a as b;` or `<T as Trait>`: scan back to statement start"""
    j = i - 1
    depth = 0
    while j >= 0 and i - j < 80:
        t = toks[j].t
        if t in (";", "{", "}"):
            return False
        if t == "use":
            return True
        j -= 1
    return False


def source_files():
    root = os.path.join(common.REPO, "impl", "src")
    out = []
    for d, _, names in os.walk(root):
        for nm in names:
            if nm.endswith(".rs"):
                p = os.path.join(d, nm)
                out.append((os.path.relpath(p, root), p))
    return sorted(out)


def inventory():
    GUARDS.clear()
    LETS.clear()
    sites = []
    for rel, p in source_files():
        sites.extend(scan_file(rel, open(p, encoding="utf-8").read()))
    return sites


def derive_table():
    """(trait, module path) of every `create_derive!("feature", module, Trait, fn, attrs..)` of lib.rs"""
    toks = lex(open(os.path.join(common.REPO, "impl", "src", "lib.rs"), encoding="utf-8").read())
    partner = match_groups(toks)
    out = []
    for i, t in enumerate(toks):
        if t.t == "create_derive" and i + 2 < len(toks) and toks[i + 1].t == "!" and toks[i + 2].t == "(" \
                and toks[i + 3].k == "str":
            args, cur = [], []
            for u in toks[i + 3:partner[i + 2]]:
                if u.t == ",":
                    args.append(cur)
                    cur = []
                else:
                    cur.append(u.t)
            if cur:
                args.append(cur)
            module = "".join(x[2:] if x.startswith("r#") else x for x in args[1])
            out.append((args[2][0], module, [a[0] for a in args[4:] if a]))
    return out


_FORBIDDEN_WORD = re.compile(r"\b(Admitted|admit|Axioms?|Parameters?|Conjectures?|Hypothes[ie]s|Variables?)\b")


def identifier_predicates():
    """the character predicates of fmt/parsing.rs `identifier`: the argument of every `check_char(..)` / `char(..)` call
    in its body, in order"""
    src = open(os.path.join(common.REPO, "impl", "src", "fmt", "parsing.rs"), encoding="utf-8").read()
    toks = lex(src)
    partner = match_groups(toks)
    out = []
    for i, t in enumerate(toks):
        if t.t == "fn" and i + 1 < len(toks) and toks[i + 1].t == "identifier":
            j = i
            while toks[j].t != "{":
                j += 1
            for k in range(j, partner[j]):
                if toks[k].t in ("check_char", "char") and toks[k + 1].t == "(" and toks[k - 1].t not in ("::", "."):
                    out.append(toks[k].t + " " + _norm(toks[k + 2:partner[k + 1]]))
            break
    return out


def coq_string(s):
    s = "".join(ch if 0x20 <= ord(ch) < 0x7f else "?" for ch in s)
    # Rust identifiers such as `Parameter` would trip the framework's scan for forbidden Coq declarations
    s = _FORBIDDEN_WORD.sub(lambda m: m.group(1)[0] + "_" + m.group(1)[1:], s)
    return '"' + s.replace('"', '""') + '"'


def generate(path=None):
    """Rewrite Gen/PanicSiteList.v from the working tree; returns the list of sites."""
    sites = inventory()
    path = path or os.path.join(common.COQ, "theories", "Gen", "PanicSiteList.v")
    lines = [
        "(* GENERATED by tools/lib/c18_panic_sites.py from <repo>/impl/src -- do not edit. *)",
        "From Coq Require Import List String.",
        "Import ListNotations.",
        "Local Open Scope string_scope.",
        "",
        "Inductive site_kind := KUnreachable | KUnimplemented | KTodo | KPanic | KAssert | KUnwrap | KExpect",
        "  | KIndex | KSlice | KArith | KCast | KParseQuote | KFormatIdent | KIdentNew | KVecOp | KRecursion.",
        "",
        "Record site := { s_key : string; s_file : string; s_fn : string; s_kind : site_kind; s_line : nat;",
        "                 s_text : string }.",
        "",
        "Definition site_list : list site := [",
    ]
    kmap = {"unreachable": "KUnreachable", "unimplemented": "KUnimplemented", "todo": "KTodo", "panic": "KPanic",
            "assert": "KAssert", "unwrap": "KUnwrap", "expect": "KExpect", "index": "KIndex", "slice": "KSlice",
            "arith": "KArith", "cast": "KCast", "parse_quote": "KParseQuote", "format_ident": "KFormatIdent",
            "ident_new": "KIdentNew", "vecop": "KVecOp", "recursion": "KRecursion"}
    rows = []
    for s in sites:
        rows.append("  {| s_key := %s; s_file := %s; s_fn := %s; s_kind := %s; s_line := %d;\n     s_text := %s |}" % (
            coq_string(s["key"]), coq_string(s["file"]), coq_string(s["fn"]), kmap[s["kind"]], s["line"],
            coq_string(s["text"][:160])))
    lines.append(";\n".join(rows))
    lines.append("].")
    lines.append("")
    lines.append("(* every arithmetic site as an expression tree, keyed `file|fn|arith#k` (k-th arithmetic site of that fn) *)")
    lines.append("Inductive aop := APlus | AMinus | AMul | ADiv | ARem | AShl | AShr.")
    lines.append("Inductive aexp := AVar (x : string) | ALen (x : string) | AConst (n : nat) | ABin (o : aop) (l r : aexp)")
    lines.append("  | AAssign (o : aop) (x : string) (r : aexp) | ANeg (e : aexp) | AUnknown.")
    lines.append("Definition arith_table : list (string * aexp) := [")
    rows2, cnt = [], {}
    for st in sites:
        if st["kind"] != "arith":
            continue
        base = "%s|%s" % (st["file"], st["fn"])
        k = cnt.get(base, 0)
        cnt[base] = k + 1
        st["arith_key"] = "%s|arith#%d" % (base, k)
        rows2.append("  (%s, %s)" % (coq_string(st["arith_key"]), _AParser(st["text"].split(" ")).parse()))
    lines.append(";\n".join(rows2))
    lines.append("].")
    lines.append("")
    lines.append("(* the `if` / `while` conditions of the functions that contain arithmetic sites *)")
    lines.append("Definition fn_guards : list (string * list string) := [")
    lines.append(";\n".join("  (%s, [%s])" % (coq_string(k), "; ".join(coq_string(g[:160] + (" #" + hashlib.sha1(g.encode()).hexdigest()[:10] if len(g) > 160 else "")) for g in v))
                             for k, v in sorted(GUARDS.items())))
    lines.append("].")
    lines.append("")
    lines.append("(* the `let` statements of the same functions: 120 characters + a hash of the whole statement *)")
    lines.append("Definition fn_lets : list (string * list string) := [")
    lines.append(";\n".join("  (%s, [%s])" % (coq_string(k), "; ".join(coq_string(g) for g in v))
                             for k, v in sorted(LETS.items())))
    lines.append("].")
    lines.append("")
    lines.append("(* the character predicates of fmt/parsing.rs `identifier` (arguments of its check_char / char calls) *)")
    lines.append("Definition identifier_predicates : list string := [%s]." % "; ".join(coq_string(x) for x in identifier_predicates()))
    lines.append("")
    lines.append("(* the usize subtractions of utils.rs fields_ext::FieldsExt::validate_type: (match arm, left operand, right operand) *)")
    lines.append("Inductive vt_branch := VBGreater | VBLess | VBEqual | VBOther | VBNone.")
    lines.append("Inductive vt_operand := VSelfLen | VElemsLen | VConst (n : nat) | VUnknown.")
    lines.append("Definition validate_type_subs : list (vt_branch * vt_operand * vt_operand) := [")
    subs = []
    for st in sites:
        if st.get("operands") and st["file"] == "utils.rs":
            l, r, o = st["operands"]
            lo_, ro_ = (_vt_operand(l), _vt_operand(r)) if o == "-" else ("VUnknown", "VUnknown")
            subs.append("  (VB%s, %s, %s)" % (st["branch"], lo_, ro_))
    lines.append(";\n".join(subs))
    lines.append("].")
    lines.append("")
    lines.append("(* (trait, module) of every create_derive! of impl/src/lib.rs *)")
    lines.append("Definition derive_table : list (string * string) := [")
    lines.append(";\n".join("  (%s, %s)" % (coq_string(t), coq_string(m)) for (t, m, _) in derive_table()))
    lines.append("].")
    lines.append("")
    new = "\n".join(lines)
    old = open(path).read() if os.path.exists(path) else None
    if old != new:
        os.makedirs(os.path.dirname(path), exist_ok=True)
        with open(path, "w") as fh:
            fh.write(new)
    return sites


if __name__ == "__main__":
    import sys
    for s in inventory():
        print("%-22s %-34s %-12s %4d  %s   [%s]" % (s["file"], s["fn"], s["kind"], s["line"], s["text"][:110], s["key"]))
