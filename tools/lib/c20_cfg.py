"""T-gen for C20: regenerate coq/theories/Gen/CfgFacts.v from /repo on every run.

Extracted from Cargo.toml, impl/Cargo.toml, impl/src/**, src/** (the two crates' module trees):

  * every item / mod / use / re-export with its EFFECTIVE guard = conjunction of the `#[cfg(...)]`s on the way from
    the crate root (module guards, item guards, statement / match-arm / field guards), the two local macros
    `create_derive!` and `re_export_traits!` being expanded (their `macro_rules!` pattern is checked against the
    shape this translator understands - a changed pattern is an error);
  * every use site of such an item: `use` declarations, `crate::` / `self::` / `super::` / module-relative paths in
    code, bare mentions of names whose binding is cfg-guarded, `derive_more::...` paths inside quote!-like templates
    (resolved in the facade's module tree, type/value namespace), `std::` paths in the `no_std`-capable facade,
    optional dependencies (`convert_case`, `unicode_xid`, `syn::visit`) - each with the guard of the containing code;
  * the facade feature -> impl feature map, `full` / `default` lists of both crates, the derive table.

Every (use guard, definition guard) pair goes to `cfg_pairs`.  The translator's own truth table also flags refuted
pairs (returned as `exceptions`, with a witness feature set) so that the check can search for an input reaching the
use; in the Coq development a refuted pair breaks the obligation C20_defined_where_used.

Non-feature cfgs: docsrs -> false, doc -> false (documentation builds are out of scope), test -> items skipped,
`ci`, `nightly` -> free variables.  Unknown cfg syntax, unknown item-level macros, unresolvable crate paths are errors.
"""
import os
import re

from . import common
from . import rustlex_c19c20 as L
from .rustlex_c19c20 import Tok, Group, is_p, is_id


class TranslatorError(Exception):
    pass


# ------------------------------------------------------------------ formulas

TRUE = ("true",)
FALSE = ("any", ())
NONFEATURE = {"docsrs": FALSE, "doc": FALSE, "ci": ("var", "cfg:ci"), "nightly": ("var", "cfg:nightly")}


def var(name):
    return ("var", name)


def f_all(fs):
    out = []
    for f in fs:
        if f == TRUE:
            continue
        if f[0] == "all":
            out.extend(f[1])
        else:
            out.append(f)
    ded = []
    for f in out:
        if f not in ded:
            ded.append(f)
    if FALSE in ded:
        return FALSE
    if not ded:
        return TRUE
    if len(ded) == 1:
        return ded[0]
    return ("all", tuple(ded))


def f_any(fs):
    out = []
    for f in fs:
        if f[0] == "any":
            out.extend(f[1])
        else:
            out.append(f)
    ded = []
    for f in out:
        if f not in ded:
            ded.append(f)
    if TRUE in ded:
        return TRUE
    if len(ded) == 1:
        return ded[0]
    return ("any", tuple(ded))          # () = false


def f_not(f):
    if f == TRUE:
        return FALSE
    if f == FALSE:
        return TRUE
    return ("not", f)


def f_vars(f, acc=None):
    acc = [] if acc is None else acc
    if f[0] == "var":
        if f[1] not in acc:
            acc.append(f[1])
    elif f[0] in ("any", "all"):
        for g in f[1]:
            f_vars(g, acc)
    elif f[0] == "not":
        f_vars(f[1], acc)
    return acc


def f_eval(f, v):
    k = f[0]
    if k == "var":
        return v.get(f[1], False)
    if k == "any":
        return any(f_eval(g, v) for g in f[1])
    if k == "all":
        return all(f_eval(g, v) for g in f[1])
    if k == "not":
        return not f_eval(f[1], v)
    return True


def f_counterexample(a, b):
    """a valuation with a true and b false, or None (complete case split on the occurring variables)"""
    vs = f_vars(b, f_vars(a))
    if len(vs) > 20:
        raise TranslatorError("formula pair with %d variables" % len(vs))
    for m in range(1 << len(vs)):
        v = {x: bool(m >> i & 1) for i, x in enumerate(vs)}
        if f_eval(a, v) and not f_eval(b, v):
            return v
    return None


def f_text(f):
    k = f[0]
    if k == "var":
        return f[1]
    if k == "true":
        return "true"
    if k == "not":
        return "not(%s)" % f_text(f[1])
    return "%s(%s)" % (k, ", ".join(f_text(g) for g in f[1]))


def parse_cfg_pred(items, where):
    """token tree of a cfg predicate -> formula"""
    if not items:
        raise TranslatorError("%s: empty cfg predicate" % where)
    t = items[0]
    if not is_id(t):
        raise TranslatorError("%s: unknown cfg syntax %r" % (where, L.text_of(items)))
    if t.text in ("any", "all", "not"):
        if len(items) != 2 or not (isinstance(items[1], Group) and items[1].delim == "("):
            raise TranslatorError("%s: unknown cfg syntax %r" % (where, L.text_of(items)))
        parts = split_commas(items[1].items)
        subs = [parse_cfg_pred(p, where) for p in parts]
        if t.text == "any":
            return f_any(subs)
        if t.text == "all":
            return f_all(subs)
        if len(subs) != 1:
            raise TranslatorError("%s: not(..) with %d arguments" % (where, len(subs)))
        return f_not(subs[0])
    if t.text == "feature":
        if len(items) == 3 and is_p(items[1], "=") and isinstance(items[2], Tok) and items[2].kind == "str":
            if items[2].value == "verif_hooks":
                return ("test",)            # the verification hook feature: its items are skipped like cfg(test)
            return var(items[2].value)
        raise TranslatorError("%s: unknown cfg syntax %r" % (where, L.text_of(items)))
    if len(items) == 1:
        if t.text == "test":
            return ("test",)
        if t.text in NONFEATURE:
            return NONFEATURE[t.text]
    raise TranslatorError("%s: unknown cfg predicate %r" % (where, L.text_of(items)))


def has_test(f):
    if f == ("test",):
        return True
    if f[0] in ("any", "all"):
        return any(has_test(g) for g in f[1])
    if f[0] == "not":
        return has_test(f[1])
    return False


def split_commas(items):
    parts = []
    cur = []
    for t in items:
        if is_p(t, ","):
            if cur:
                parts.append(cur)
            cur = []
        else:
            cur.append(t)
    if cur:
        parts.append(cur)
    return parts


# ------------------------------------------------------------------ Cargo manifests (the subset of TOML they use)

def parse_manifest(path):
    """-> {section: {key: value}}; values: str | list[str] | dict (inline table) | bool"""
    sections = {}
    cur = None
    buf = None
    key = None
    for raw in open(path):
        line = raw.split("#", 1)[0].rstrip() if '"' not in raw.split("#", 1)[0] or raw.count('"') % 2 == 0 else raw.rstrip()
        line = strip_toml_comment(raw).rstrip()
        if buf is not None:
            buf += " " + line.strip()
            if buf.count("[") == buf.count("]"):
                sections[cur][key] = toml_value(buf, path)
                buf = None
            continue
        s = line.strip()
        if not s:
            continue
        m = re.match(r"^\[\[(.+)\]\]$", s)
        if m:
            cur = m.group(1).strip() + "#%d" % sum(1 for k in sections if k.startswith(m.group(1).strip() + "#"))
            sections[cur] = {}
            continue
        m = re.match(r"^\[(.+)\]$", s)
        if m:
            cur = m.group(1).strip()
            sections.setdefault(cur, {})
            continue
        m = re.match(r'^([A-Za-z0-9_\-."]+)\s*=\s*(.*)$', s)
        if not m or cur is None:
            raise TranslatorError("%s: cannot parse manifest line %r" % (path, raw))
        key = m.group(1).strip('"')
        val = m.group(2)
        if val.count("[") != val.count("]"):
            buf = val
            continue
        sections[cur][key] = toml_value(val, path)
    return sections


def strip_toml_comment(line):
    out = []
    instr = False
    for c in line:
        if c == '"':
            instr = not instr
        if c == "#" and not instr:
            break
        out.append(c)
    return "".join(out)


def toml_value(s, path):
    s = s.strip()
    if s.startswith("["):
        inner = s[1:s.rindex("]")]
        return [x.strip().strip('"') for x in inner.split(",") if x.strip()]
    if s.startswith("{"):
        d = {}
        inner = s[1:s.rindex("}")]
        depth = 0
        cur = ""
        parts = []
        for c in inner:
            if c == "[":
                depth += 1
            elif c == "]":
                depth -= 1
            if c == "," and depth == 0:
                parts.append(cur)
                cur = ""
            else:
                cur += c
        if cur.strip():
            parts.append(cur)
        for p in parts:
            k, v = p.split("=", 1)
            d[k.strip()] = toml_value(v, path)
        return d
    if s.startswith('"'):
        return s.strip('"')
    if s in ("true", "false"):
        return s == "true"
    return s


# ------------------------------------------------------------------ crate model

class Def:
    __slots__ = ("name", "kind", "ns", "guard", "file", "line", "target", "vis")

    def __init__(self, name, kind, ns, guard, file, line, target=None, vis=""):
        self.name, self.kind, self.ns, self.guard = name, kind, ns, guard
        self.file, self.line, self.target, self.vis = file, line, target, vis


class Module:
    def __init__(self, path, guard, file):
        self.path = tuple(path)
        self.guard = guard            # effective
        self.file = file
        self.defs = {}                # name -> [Def]
        self.globs = []               # [(abs target path, guard_eff, line)]

    def add(self, d):
        self.defs.setdefault(d.name, []).append(d)


class Crate:
    def __init__(self, name, root_dir, root_file, externs):
        self.name = name
        self.root_dir = root_dir
        self.root_file = root_file
        self.externs = set(externs)
        self.modules = {}
        self.sites = []               # raw use sites, resolved later
        self.no_std_pred = None       # formula under which #![no_std] applies
        self.derives = []             # (trait name, guard, feature literal, module path list, fn name)
        self.macros = {}              # name -> (pattern text, body items)
        self.cfg_macros = []          # `cfg!(..)` calls in expressions
        self.impls = []               # trait impls: {trait, type, own (cfgs written on the impl), guard (effective)}
        self.stats = {"items": 0, "modules": 0, "cfg_attrs": 0, "cfg_test_skipped": 0, "templates": 0,
                      "macro_expansions": 0, "use_decls": 0}


ITEM_KW_BRACE = {"fn", "impl", "trait", "struct", "enum", "union", "unsafe", "async", "default", "macro_rules", "extern"}
ITEM_KW_SEMI = {"use", "type", "static", "let"}
TEMPLATE_MACROS = {"quote", "quote_spanned", "parse_quote", "parse_quote_spanned"}
DEF_NS = {"fn": "v", "struct": "tv", "enum": "t", "union": "t", "trait": "t", "type": "t", "const": "v",
          "static": "v", "mod": "t", "macro_rules": "m"}

CREATE_DERIVE_PATTERN = "$feature:literal,$mod_:ident$(::$mod_rest:ident)*,$trait_:ident,$fn_name:ident$(,$attribute:ident)*$(,)?"
RE_EXPORT_PATTERN = "$feature:literal,$new_module_name:ident,$module:path$(,$traits:ident)*$(,)?"


def attr_at(items, i):
    """if items[i:] starts an attribute `#[..]` / `#![..]` return (group, next index, inner?)"""
    if i < len(items) and is_p(items[i], "#"):
        j = i + 1
        inner = False
        if j < len(items) and is_p(items[j], "!"):
            inner = True
            j += 1
        if j < len(items) and isinstance(items[j], Group) and items[j].delim == "[":
            return items[j], j + 1, inner
    return None


def skip_vis(items, j):
    if j < len(items) and is_id(items[j], "pub"):
        j += 1
        if j < len(items) and isinstance(items[j], Group) and items[j].delim == "(":
            first = items[j].items[0] if items[j].items else None
            if is_id(first) and first.text in ("crate", "super", "self", "in"):
                j += 1
    return j


def extent(items, j):
    """end index (exclusive) of the item / statement / arm / field starting at items[j] (after attributes)"""
    n = len(items)
    k = skip_vis(items, j)
    if k >= n:
        return n
    t = items[k]
    if is_id(t):
        kw = t.text
        if kw == "const" and k + 1 < n and is_id(items[k + 1]) and items[k + 1].text in ("fn", "unsafe", "async", "extern"):
            kw = "fn"
        if kw in ITEM_KW_SEMI or kw == "const":
            e = k
            while e < n and not is_p(items[e], ";"):
                e += 1
            return min(e + 1, n)
        if kw == "mod":
            e = k
            while e < n and not is_p(items[e], ";") and not (isinstance(items[e], Group) and items[e].delim == "{"):
                e += 1
            return min(e + 1, n)
        if kw in ITEM_KW_BRACE:
            e = k
            while e < n and not is_p(items[e], ";") and not (isinstance(items[e], Group) and items[e].delim == "{"):
                e += 1
            return min(e + 1, n)
        # macro invocation `path ! group [;]`
        e = k
        while e + 2 < n and is_id(items[e]) and is_p(items[e + 1], ":") and is_p(items[e + 2], ":"):
            e += 3
        if e + 2 < n + 1 and is_id(items[e]) and e + 1 < n and is_p(items[e + 1], "!") and e + 2 < n \
                and isinstance(items[e + 2], Group):
            e += 3
            if e < n and is_p(items[e], ";"):
                e += 1
            return e
    # generic: a field / variant / match arm / expression: up to the next `,` or `;` at this level
    e = k
    while e < n:
        u = items[e]
        if is_p(u, ",") or is_p(u, ";"):
            return e + 1
        if is_p(u, "=") and e + 1 < n and is_p(items[e + 1], ">") and e + 2 < n and isinstance(items[e + 2], Group) \
                and items[e + 2].delim == "{":
            e += 3
            if e < n and is_p(items[e], ","):
                e += 1
            return e
        e += 1
    return n


def count_cfgs(items):
    n = 0
    for i, t in enumerate(items):
        if isinstance(t, Group):
            if t.delim == "[" and i >= 1 and is_p(items[i - 1], "#") and t.items and is_id(t.items[0], "cfg"):
                n += 1
            n += count_cfgs(t.items)
    return n


class Analyzer:
    def __init__(self, crate):
        self.c = crate
        self.expanding = 0

    def bump_cfg(self, n=1):
        if not self.expanding:
            self.c.stats["cfg_attrs"] += n

    # ---- files / modules
    def load(self, file):
        src = open(file).read()
        return L.tree(L.lex(src, file), file)

    def rel(self, file):
        return os.path.relpath(file, os.path.dirname(self.c.root_dir))

    def run(self):
        items = self.load(self.c.root_file)
        root = Module((), TRUE, self.c.root_file)
        self.c.modules[()] = root
        self.parse_module(root, items, os.path.dirname(self.c.root_file), is_root_file=True)

    def child_file(self, dirpath, name, line, parent_file):
        name = name[2:] if name.startswith("r#") else name
        f1 = os.path.join(dirpath, name + ".rs")
        f2 = os.path.join(dirpath, name, "mod.rs")
        if os.path.exists(f1):
            return f1, os.path.join(dirpath, name)
        if os.path.exists(f2):
            return f2, os.path.join(dirpath, name)
        raise TranslatorError("%s:%d: file of `mod %s` not found" % (parent_file, line, name))

    # ---- one module
    def parse_module(self, mod, items, child_dir, is_root_file=False):
        c = self.c
        c.stats["modules"] += 1
        i = 0
        n = len(items)
        while i < n:
            # attributes
            guards = []
            attrs = []
            skip_item = False
            while True:
                a = attr_at(items, i)
                if a is None:
                    break
                g, i2, inner = a
                head = g.items[0] if g.items else None
                where = "%s:%d" % (self.rel(mod.file), g.line)
                if is_id(head, "cfg"):
                    self.bump_cfg()
                    if inner:
                        raise TranslatorError("%s: inner #![cfg] is not supported" % where)
                    f = parse_cfg_pred(g.items[1].items, where)
                    if has_test(f):
                        skip_item = True
                    else:
                        guards.append(f)
                elif is_id(head, "cfg_attr"):
                    parts = split_commas(g.items[1].items)
                    pred = parse_cfg_pred(parts[0], where)
                    for p in parts[1:]:
                        if len(p) == 1 and is_id(p[0], "no_std"):
                            if not (inner and mod.path == ()):
                                raise TranslatorError("%s: no_std outside the crate root" % where)
                            c.no_std_pred = pred
                        if is_id(p[0], "cfg") or is_id(p[0], "path"):
                            raise TranslatorError("%s: cfg_attr(.., %s ..) is not supported" % (where, p[0].text))
                elif is_id(head, "no_std") and inner:
                    c.no_std_pred = TRUE
                elif is_id(head, "path"):
                    raise TranslatorError("%s: #[path] is not supported" % where)
                attrs.append(g)
                i = i2
            if i >= n:
                break
            e = extent(items, i)
            if e <= i:
                raise TranslatorError("%s:%d: empty item extent" % (self.rel(mod.file), getattr(items[i], "line", 0)))
            thing = items[i:e]
            i = e
            if skip_item:
                c.stats["cfg_test_skipped"] += 1
                self.bump_cfg(count_cfgs(thing))
                continue
            if len(thing) == 1 and is_p(thing[0], ";"):
                continue
            guard = f_all([mod.guard] + guards)
            self.parse_item(mod, thing, guard, attrs, child_dir, own=f_all(guards))

    def parse_item(self, mod, thing, guard, attrs, child_dir, own=TRUE):
        c = self.c
        c.stats["items"] += 1
        k = skip_vis(thing, 0)
        vis = "pub" if k > 0 else ""
        t = thing[k]
        file = mod.file
        line = t.line
        if not is_id(t):
            raise TranslatorError("%s:%d: unexpected token %r at item level" % (self.rel(file), line, t.text))
        kw = t.text
        if kw == "use":
            c.stats["use_decls"] += 1
            body = thing[k + 1:-1]
            self.handle_use(mod, body, guard, vis, line)
            return
        if kw == "mod":
            name = thing[k + 1].text
            mname = name[2:] if name.startswith("r#") else name
            mod.add(Def(mname, "mod", "t", guard, file, line, vis=vis))
            sub = Module(mod.path + (mname,), guard, file)
            prev = c.modules.get(sub.path)
            if prev is not None:
                # cfg-alternative definitions of the same module: one member table, every member carries
                # its own effective guard (which includes the guard of the alternative it came from)
                sub.defs, sub.globs = prev.defs, prev.globs
                prev.guard = f_any([prev.guard, guard])
            else:
                c.modules[sub.path] = sub
            if isinstance(thing[-1], Group):
                self.parse_module(sub, thing[-1].items, os.path.join(child_dir, mname))
            else:
                f, d = self.child_file(child_dir, name, line, file)
                sub.file = f
                self.parse_module(sub, self.load(f), d)
            return
        if kw == "macro_rules":
            name = thing[k + 2].text
            grp = thing[k + 3]
            rules = grp.items
            if not (len(rules) >= 4 and isinstance(rules[0], Group) and is_p(rules[1], "=") and is_p(rules[2], ">")
                    and isinstance(rules[3], Group)) or len([x for x in rules if isinstance(x, Group)]) != 2:
                raise TranslatorError("%s:%d: macro_rules! %s: only single-rule macros are understood" %
                                      (self.rel(file), line, name))
            pat = "".join(x.text for x in L.flat(rules[0].items))
            c.macros[name] = (pat, rules[3].items, guard)
            self.bump_cfg(count_cfgs(rules[3].items))
            mod.add(Def(name, "macro_rules", "m", guard, file, line, vis=vis))
            return
        # macro invocation at item level
        e = k
        while e + 2 < len(thing) and is_id(thing[e]) and is_p(thing[e + 1], ":") and is_p(thing[e + 2], ":"):
            e += 3
        if is_id(thing[e]) and e + 2 < len(thing) + 0 and is_p(thing[e + 1], "!") and isinstance(thing[e + 2], Group):
            name = thing[e].text
            if name == "compile_error":
                return
            if name in c.macros:
                c.stats["macro_expansions"] += 1
                expanded = self.expand_macro(name, thing[e + 2], file, line)
                tmp = Module(mod.path, guard, file)
                tmp.defs, tmp.globs = mod.defs, mod.globs
                self.expanding += 1
                self.parse_module(tmp, expanded, child_dir)
                self.expanding -= 1
                return
            raise TranslatorError("%s:%d: unknown item-level macro %s!" % (self.rel(file), line, name))
        if kw == "const" and is_id(thing[k + 1]) and thing[k + 1].text in ("fn", "unsafe", "async", "extern"):
            kw = "fn"
        if kw in ("unsafe", "async", "default", "extern"):
            q = k
            while q < len(thing) and is_id(thing[q]) and thing[q].text in ("unsafe", "async", "default", "extern", "const"):
                q += 1
                if q < len(thing) and isinstance(thing[q], Tok) and thing[q].kind == "str":
                    q += 1
            kw = thing[q].text if q < len(thing) and is_id(thing[q]) else kw
            k = q
        if kw in ("fn", "struct", "enum", "union", "trait", "type", "const", "static"):
            name_tok = thing[k + 1]
            if kw in ("static",) and is_id(name_tok, "mut"):
                name_tok = thing[k + 2]
            name = name_tok.text
            derive_name = None
            for a in attrs:
                if a.items and is_id(a.items[0], "proc_macro_derive"):
                    derive_name = a.items[1].items[0].text
            if derive_name:
                mod.add(Def(derive_name, "derive", "m", guard, file, line, vis="pub"))
            else:
                mod.add(Def(name, kw, DEF_NS[kw], guard, file, line, vis=vis))
            self.scan(mod, thing[k + 2:], guard, file)
            return
        if kw == "impl":
            # `impl [<..>] TRAIT for TYPE [where ..] {..}`: remember trait impls with their guards
            hdr = [x for x in thing[k + 1:] if not (isinstance(x, Group) and x.delim == "{")]
            fl = L.flat(hdr)
            depth = 0
            fpos = None
            for q, x in enumerate(fl):
                if is_p(x, "<"):
                    depth += 1
                elif is_p(x, ">") and not (q > 0 and is_p(fl[q - 1], "-")):
                    depth -= 1
                elif depth == 0 and is_id(x, "for"):
                    fpos = q
                    break
            if fpos is not None:
                st = 0
                if fl and is_p(fl[0], "<"):            # skip the impl generics
                    d2 = 0
                    for q, x in enumerate(fl):
                        if is_p(x, "<"):
                            d2 += 1
                        elif is_p(x, ">"):
                            d2 -= 1
                            if d2 == 0:
                                st = q + 1
                                break
                trait_txt = "".join(x.text for x in fl[st:fpos])
                ty = [x for x in fl[fpos + 1:]]
                while ty and (is_p(ty[0], "&") or ty[0].kind == "lifetime" or is_id(ty[0], "mut")):
                    ty = ty[1:]
                # last identifier of the leading path of the self type
                tname = None
                q = 0
                while q < len(ty) and is_id(ty[q]):
                    tname = ty[q].text
                    if q + 2 < len(ty) and is_p(ty[q + 1], ":") and is_p(ty[q + 2], ":"):
                        q += 3
                    else:
                        break
                if tname:
                    c.impls.append({"trait": trait_txt, "type": tname, "own": own, "guard": guard, "file": file,
                                    "line": line, "mod": mod.path})
            self.scan(mod, thing[k + 1:], guard, file)
            return
        raise TranslatorError("%s:%d: unknown item starting with %r" % (self.rel(file), line, kw))

    # ---- macro expansion (the two local macros)
    def expand_macro(self, name, arg_group, file, line):
        pat, body, _ = self.c.macros[name]
        args = split_commas(arg_group.items)
        where = "%s:%d" % (self.rel(file), line)
        if pat == CREATE_DERIVE_PATTERN:
            if len(args) < 4:
                raise TranslatorError("%s: create_derive! with %d arguments" % (where, len(args)))
            path = [x for x in args[1] if is_id(x)]
            binds = {"feature": args[0], "mod_": [path[0]], "mod_rest": [[p] for p in path[1:]],
                     "trait_": args[2], "fn_name": args[3], "attribute": [a for a in args[4:]]}
        elif pat == RE_EXPORT_PATTERN:
            if len(args) < 3:
                raise TranslatorError("%s: re_export_traits! with %d arguments" % (where, len(args)))
            binds = {"feature": args[0], "new_module_name": args[1], "module": args[2],
                     "traits": [a for a in args[3:]]}
        else:
            raise TranslatorError("%s: the pattern of macro %s! changed (%s): the translator does not understand it" %
                                  (where, name, pat))
        out = self.transcribe(body, binds, where)
        for t in L.flat(out):
            t.line = line
        return L.tree(L.flat(out))

    def transcribe(self, body, binds, where, idx=None):
        out = []
        i = 0
        n = len(body)
        while i < n:
            t = body[i]
            if is_p(t, "$") and i + 1 < n and is_id(body[i + 1]):
                v = body[i + 1].text
                if v not in binds:
                    raise TranslatorError("%s: unbound macro variable $%s" % (where, v))
                b = binds[v]
                if b and isinstance(b[0], list):
                    if idx is None:
                        raise TranslatorError("%s: repeated variable $%s outside a repetition" % (where, v))
                    b = b[idx]
                out.extend(b)
                i += 2
                continue
            if is_p(t, "$") and i + 1 < n and isinstance(body[i + 1], Group) and body[i + 1].delim == "(":
                inner = body[i + 1].items
                j = i + 2
                sep = None
                if j < n and not (is_p(body[j], "*") or is_p(body[j], "+") or is_p(body[j], "?")):
                    sep = body[j]
                    j += 1
                if not (j < n and (is_p(body[j], "*") or is_p(body[j], "+") or is_p(body[j], "?"))):
                    raise TranslatorError("%s: malformed repetition in macro body" % where)
                rep_vars = [x.text for q, x in enumerate(L.flat(inner)) if is_id(x) and x.text in binds
                            and binds[x.text] is not None and (not binds[x.text] or isinstance(binds[x.text][0], list))
                            and q > 0 and is_p(L.flat(inner)[q - 1], "$")]
                if not rep_vars:
                    raise TranslatorError("%s: repetition without a repeated variable" % where)
                count = len(binds[rep_vars[0]])
                for r in range(count):
                    if r > 0 and sep is not None:
                        out.append(sep)
                    out.extend(self.transcribe(inner, binds, where, idx=r))
                i = j + 1
                continue
            if isinstance(t, Group):
                g = Group(t.delim, t.line)
                g.end_line = t.end_line
                g.items = self.transcribe(t.items, binds, where, idx)
                out.append(g)
            else:
                out.append(Tok(t.kind, t.text, t.line, t.value))
            i += 1
        return out

    # ---- use declarations
    def handle_use(self, mod, body, guard, vis, line):
        from .c19_hashfacts import parse_use_tree
        try:
            entries = parse_use_tree(body, [])
        except Exception as e:
            raise TranslatorError("%s:%d: %s" % (self.rel(mod.file), line, e))
        for full, name in entries:
            full = [s[2:] if s.startswith("r#") else s for s in full]
            if name == "*":
                mod.globs.append((full, guard, line))
            else:
                name = name[2:] if name.startswith("r#") else name
                mod.add(Def(name, "use", "?", guard, mod.file, line, target=full, vis=vis))
            self.c.sites.append({"mod": mod.path, "path": full, "guard": guard, "file": mod.file, "line": line,
                                 "ctx": "use", "glob": name == "*"})

    # ---- scanning code for use sites
    def scan(self, mod, items, guard, file, template=False):
        c = self.c
        i = 0
        n = len(items)
        while i < n:
            t = items[i]
            a = attr_at(items, i)
            if a is not None:
                g, i2, inner = a
                head = g.items[0] if g.items else None
                if is_id(head, "cfg"):
                    where = "%s:%d" % (self.rel(file), g.line)
                    if template:
                        raise TranslatorError("%s: #[cfg] inside a template is evaluated in the user's crate" % where)
                    self.bump_cfg()
                    preds = [parse_cfg_pred(g.items[1].items, where)]
                    j = i2
                    while True:                      # further attributes of the same thing
                        b = attr_at(items, j)
                        if b is None:
                            break
                        if b[0].items and is_id(b[0].items[0], "cfg"):
                            self.bump_cfg()
                            preds.append(parse_cfg_pred(b[0].items[1].items, where))
                        j = b[1]
                    e = extent(items, j)
                    if any(has_test(p) for p in preds):
                        c.stats["cfg_test_skipped"] += 1
                        self.bump_cfg(count_cfgs(items[j:e]))
                    else:
                        thing = items[j:e]
                        g2 = f_all([guard] + preds)
                        self.scan_thing(mod, thing, g2, file)
                    i = e
                    continue
                if is_id(head, "cfg_attr"):
                    where = "%s:%d" % (self.rel(file), g.line)
                    parts = split_commas(g.items[1].items)
                    parse_cfg_pred(parts[0], where)
                    for p in parts[1:]:
                        if is_id(p[0], "cfg") or is_id(p[0], "path") or is_id(p[0], "no_std"):
                            raise TranslatorError("%s: cfg_attr(.., %s ..) is not supported here" % (where, p[0].text))
                # other attributes: scan their contents too (e.g. `#[doc = include_str!(..)]`: nothing of ours)
                i = i2
                continue
            if isinstance(t, Group):
                # template?
                if i >= 2 and is_p(items[i - 1], "!") and is_id(items[i - 2]) and items[i - 2].text in TEMPLATE_MACROS:
                    c.stats["templates"] += 1
                    self.scan(mod, t.items, guard, file, template=True)
                else:
                    self.scan(mod, t.items, guard, file, template=template)
                i += 1
                continue
            if is_id(t, "cfg") and i + 2 < n and is_p(items[i + 1], "!") and isinstance(items[i + 2], Group):
                # `cfg!(..)` in an expression: behaviour that depends on the feature set INSIDE a compiled item
                c.cfg_macros.append({"file": file, "line": t.line, "pred": L.text_of(items[i + 2].items).replace(" ", ""),
                                     "in_template": template})
            if is_id(t) and t.text == "use" and not template and (i == 0 or not is_p(items[i - 1], ".")) \
                    and i + 1 < n and (is_id(items[i + 1]) or is_p(items[i + 1], ":")):
                j = i + 1
                while j < n and not is_p(items[j], ";"):
                    j += 1
                c.stats["use_decls"] += 1
                self.handle_use(mod, items[i + 1:j], guard, "", t.line)
                i = j + 1
                continue
            if is_id(t):
                prev = items[i - 1] if i > 0 else None
                prev2 = items[i - 2] if i > 1 else None
                after_colons = prev is not None and is_p(prev, ":") and prev2 is not None and is_p(prev2, ":")
                if not after_colons and not (prev is not None and is_p(prev, ".")) \
                        and not (prev is not None and is_p(prev, "#")) and not (prev is not None and is_p(prev, "$")):
                    # collect a path a::b::c
                    segs = [t.text]
                    j = i + 1
                    interpolated = False
                    while j + 2 < n + 1 and j + 1 < n and is_p(items[j], ":") and is_p(items[j + 1], ":"):
                        if j + 2 < n and is_id(items[j + 2]):
                            segs.append(items[j + 2].text)
                            j += 3
                        elif j + 3 < n and is_p(items[j + 2], "#") and is_id(items[j + 3]):
                            interpolated = True
                            break
                        else:
                            break
                    is_macro = j < n and is_p(items[j], "!")
                    if template:
                        if segs[0] == "derive_more":
                            c.sites.append({"mod": mod.path, "path": segs, "guard": guard, "file": file, "line": t.line,
                                            "ctx": "template", "interpolated": interpolated, "macro": is_macro})
                    else:
                        c.sites.append({"mod": mod.path, "path": [s[2:] if s.startswith("r#") else s for s in segs],
                                        "guard": guard, "file": file, "line": t.line,
                                        "ctx": "path" if len(segs) > 1 else "bare", "macro": is_macro})
                    i = j if len(segs) > 1 else i + 1
                    continue
            i += 1

    def scan_thing(self, mod, thing, guard, file):
        """a cfg-guarded thing inside a body: nested items define names too (inline items in fn bodies are rare;
        a nested `mod`/`fn` is handled as code)"""
        self.scan(mod, thing, guard, file)


# ------------------------------------------------------------------ resolution

class Resolver:
    def __init__(self, crate, others, repo):
        self.c = crate
        self.others = others          # crate name (as written in paths) -> Crate
        self.repo = repo
        self.pairs = []
        self.ignored = 0

    def rel(self, f):
        return os.path.relpath(f, self.repo)

    def abs_path(self, modpath, segs):
        p = list(segs)
        if p[0] == "crate":
            return p[1:], True
        if p[0] == "self":
            return list(modpath) + p[1:], True
        if p[0] == "super":
            base = list(modpath)
            while p and p[0] == "super":
                base = base[:-1]
                p = p[1:]
            return base + p, True
        return p, False

    def is_extern(self, name):
        return name in self.others or name in self.c.externs or name in ("std", "core", "alloc")

    @staticmethod
    def ns_match(d, ns):
        """does definition d provide the name in namespace ns ('t' = type or value, 'm' = macro, None = any)"""
        if ns is None or d.kind == "use":
            return True
        if ns == "m":
            return "m" in d.ns
        return d.ns != "m"

    def lookup(self, mpath, name, ns=None, seen=None):
        """definitions of `name` visible as a member of module `mpath` in namespace ns
        -> list of (Def, extra guard).  Explicit definitions shadow glob imports (per namespace)."""
        m = self.c.modules.get(tuple(mpath))
        if m is None:
            return []
        direct = [(d, TRUE) for d in m.defs.get(name, []) if self.ns_match(d, ns)]
        # an explicit `use` of a derive of the impl crate provides the macro namespace only
        if ns == "t":
            direct = [(d, g) for d, g in direct if not (d.kind == "use" and d.target and d.target[0] == "derive_more_impl")]
        if direct:
            return direct
        out = []
        seen = seen or set()
        for (target, g, line) in m.globs:
            ap, is_local = self.abs_path(mpath, target)
            key = (tuple(mpath), tuple(ap))
            if key in seen:
                continue
            if not is_local and self.is_extern(ap[0]) and not any(d.kind == "mod" for d in m.defs.get(ap[0], [])):
                ext = self.others.get(ap[0]) if ap else None
                if ext is not None and len(ap) == 1:
                    for d in ext.modules[()].defs.get(name, []):
                        if d.vis == "pub" and self.ns_match(d, ns):
                            out.append((d, g))
                continue
            if not is_local:
                ap = list(mpath) + ap
            tm = self.walk_modules(ap)
            if tm is not None:
                for d, eg in self.lookup(tm, name, ns, seen | {key}):
                    out.append((d, f_all([g, eg])))
        return out

    def chain(self, mpath, name, ns, depth=0):
        """guards under which `name` (namespace ns) is available in module mpath, following local re-exports
        down to real definitions -> list of (guard, description)"""
        if depth > 12:
            raise TranslatorError("re-export chain too deep at %s::%s" % ("::".join(mpath), name))
        out = []
        for d, eg in self.lookup(mpath, name, ns):
            g = f_all([d.guard, eg])
            where = "%s:%d" % (self.rel(d.file), d.line)
            if d.kind != "use":
                out.append((g, where))
                continue
            tp, is_local = self.abs_path(list(mpath) if d.file else [], d.target)
            if not is_local and self.is_extern(tp[0]) and not any(x.kind == "mod" for x in
                                                                  self.c.modules[tuple(mpath)].defs.get(tp[0], [])):
                ext = self.others.get(tp[0])
                if ext is not None:
                    if len(tp) == 2:
                        for x in ext.modules[()].defs.get(tp[1], []):
                            if x.vis == "pub" and self.ns_match(x, ns):
                                out.append((f_all([g, x.guard]), where + " -> " + ext.name))
                elif ns != "m":
                    out.append((g, where + " -> " + "::".join(tp)))     # a trait / type / module of core / std / ...
                continue
            if not is_local:
                tp = list(mpath) + tp
            tm = self.walk_modules(tp[:-1])
            if tm is None:
                raise TranslatorError("%s: cannot resolve the target module of `use %s`" % (where, "::".join(d.target)))
            for g2, w2 in self.chain(tm, tp[-1], ns, depth + 1):
                out.append((f_all([g, g2]), where + " -> " + w2))
        return out

    def walk_modules(self, ap, _seen=None):
        """follow a path of modules (through `use` aliases of modules) -> module path or None"""
        _seen = _seen or set()
        if tuple(ap) in _seen:
            return None
        _seen = _seen | {tuple(ap)}
        cur = []
        for seg in ap:
            ds = self.c.modules.get(tuple(cur))
            if ds is None:
                return None
            cands = ds.defs.get(seg, [])
            mods = [d for d in cands if d.kind == "mod"]
            if mods:
                cur = cur + [seg]
                continue
            uses = [d for d in cands if d.kind == "use"]
            if uses:
                tp, is_local = self.abs_path(cur, uses[0].target)
                if not is_local:
                    if self.is_extern(tp[0]):
                        return None           # re-export of something of another crate
                    tp = cur + tp
                r = self.walk_modules(tp, _seen)
                if r is None:
                    return None
                cur = list(r)
                continue
            return None
        return cur if tuple(cur) in self.c.modules else None

    def pair(self, site, use_guard, def_guard, what, def_where):
        self.pairs.append({"use": use_guard, "def": def_guard, "what": what,
                           "file": self.rel(site["file"]), "line": site["line"],
                           "def_where": def_where, "crate": self.c.name, "ctx": site["ctx"]})

    def def_where(self, defs):
        return ", ".join(sorted(set("%s:%d" % (self.rel(d.file), d.line) for d, _ in defs)))[:200]

    def resolve_site(self, site):
        c = self.c
        segs = site["path"]
        g = site["guard"]
        mpath = list(site["mod"])
        if site["ctx"] == "bare":
            name = segs[0]
            m = c.modules[tuple(mpath)]
            ds = m.defs.get(name, [])
            # only names whose binding carries a guard of its own (beyond the module's)
            if ds and all(d.guard != m.guard for d in ds) and not any(d.file == site["file"] and d.line == site["line"] for d in ds):
                if name[:1].isupper() or site.get("macro"):
                    self.pair(site, g, f_any([d.guard for d in ds]), name, self.def_where([(d, TRUE) for d in ds]))
            return
        ap, is_local = self.abs_path(mpath, segs)
        if not is_local:
            first = segs[0]
            m = c.modules[tuple(mpath)]
            local = m.defs.get(first, [])
            if self.is_extern(first) and not any(d.kind == "mod" for d in local):
                self.extern_use(site, segs)
                return
            if local:
                ap = mpath + segs
                start = len(mpath)
            else:
                found = self.lookup(mpath, first)          # through a glob import?
                if found and len(segs) > 1:
                    ap = mpath + segs
                    start = len(mpath)
                else:
                    self.ignored += 1
                    return
        else:
            start = len(ap) - len([s for s in segs if s not in ("crate", "self", "super")])
        cur = ap[:start]
        for k in range(start, len(ap)):
            name = ap[k]
            found = self.lookup(cur, name)
            if not found:
                raise TranslatorError("%s:%d: cannot resolve `%s` in module `%s` (path %s)" % (
                    self.rel(site["file"]), site["line"], name, "::".join(["crate"] + cur), "::".join(segs)))
            dg = f_any([f_all([d.guard, eg]) for d, eg in found])
            self.pair(site, g, dg, "::".join(["crate"] + cur + [name]), self.def_where(found))
            nxt = self.walk_modules(cur + [name])
            if nxt is None:
                break           # an item, or a re-export of something of another crate: the rest is not ours
            cur = list(nxt)

    def extern_use(self, site, segs):
        c = self.c
        g = site["guard"]
        first = segs[0]
        if first == "std" and c.no_std_pred is not None:
            self.pair(site, g, f_not(c.no_std_pred), "extern std (crate is no_std under %s)" % f_text(c.no_std_pred),
                      "crate attribute")
        if first in c.optional_deps:
            self.pair(site, g, c.optional_deps[first], "optional dependency " + first, "Cargo.toml")
        if first == "syn" and len(segs) > 1 and segs[1] in c.syn_features:
            self.pair(site, g, c.syn_features[segs[1]], "syn feature " + segs[1], "Cargo.toml")
        ext = self.others.get(first)
        if ext is not None and len(segs) > 1 and site["ctx"] in ("use", "path") and not site.get("glob"):
            ds = [d for d in ext.modules[()].defs.get(segs[1], []) if d.vis == "pub"]
            if not ds:
                raise TranslatorError("%s:%d: `%s` is not exported by crate %s" % (self.rel(site["file"]), site["line"], segs[1], first))
            self.pair(site, g, f_any([d.guard for d in ds]), "::".join(segs[:2]), self.def_where([(d, TRUE) for d in ds]))


def resolve_template_site(site, res_impl, res_facade, pairs, notes):
    """`derive_more::a::b` inside a template of the impl crate, resolved in the facade.  Template paths name
    types / traits / functions / modules, never derive macros (unless followed by `!`)."""
    segs = site["path"][1:]
    g = site["guard"]
    cur = []
    rel = res_impl.rel(site["file"])
    for k, name in enumerate(segs):
        last = (k == len(segs) - 1)
        ns = "m" if (last and site.get("macro")) else "t"
        ch = res_facade.chain(cur, name, ns)
        if not ch:
            raise TranslatorError("%s:%d: template path derive_more::%s: `%s` is not defined in the facade" %
                                  (rel, site["line"], "::".join(segs), name))
        dg = f_any([x[0] for x in ch])
        pairs.append({"use": g, "def": dg, "what": "derive_more::" + "::".join(segs[:k + 1]), "file": rel,
                      "line": site["line"], "def_where": "; ".join(x[1] for x in ch)[:200], "crate": "derive_more-impl",
                      "ctx": "template"})
        nxt = res_facade.walk_modules(cur + [name])
        if nxt is None:
            break               # `pub use core;`, an item: the rest is not ours
        cur = list(nxt)
    if site.get("interpolated"):
        notes.append("%s:%d: template path derive_more::%s::#<interpolated>" % (rel, site["line"], "::".join(segs)))


# ------------------------------------------------------------------ whole extraction

DERIVE_FEATURE_EXCLUDE = {"default", "std", "full", "testing-helpers", "verif_hooks"}


def extract(repo=None):
    repo = repo or common.REPO
    fac_m = parse_manifest(os.path.join(repo, "Cargo.toml"))
    imp_m = parse_manifest(os.path.join(repo, "impl", "Cargo.toml"))
    fac_feats = fac_m.get("features", {})
    imp_feats = imp_m.get("features", {})
    for name, feats in (("Cargo.toml", fac_feats), ("impl/Cargo.toml", imp_feats)):
        for k, v in feats.items():
            if not isinstance(v, list):
                raise TranslatorError("%s: feature %s is not a list" % (name, k))

    impl = Crate("derive_more-impl", os.path.join(repo, "impl", "src"), os.path.join(repo, "impl", "src", "lib.rs"),
                 ["proc_macro", "proc_macro2", "quote", "syn", "convert_case", "unicode_xid"])
    facade = Crate("derive_more", os.path.join(repo, "src"), os.path.join(repo, "src", "lib.rs"), ["derive_more_impl"])

    # optional dependencies of the impl crate and the syn features, with the features enabling them
    impl.optional_deps = {}
    impl.syn_features = {}
    dep_table = {}
    for dep, spec in imp_m.get("dependencies", {}).items():
        if isinstance(spec, dict) and spec.get("optional"):
            crate_ident = dep.replace("-", "_")
            enabling = [f for f, l in imp_feats.items() if ("dep:" + dep) in l or dep in l]
            impl.optional_deps[crate_ident] = f_any([var(f) for f in enabling])
            dep_table[dep] = enabling
    syn_spec = imp_m.get("dependencies", {}).get("syn")
    syn_base = syn_spec.get("features", []) if isinstance(syn_spec, dict) else []
    syn_default = not (isinstance(syn_spec, dict) and syn_spec.get("default-features") is False)
    for sf, modname in (("visit", "visit"), ("visit-mut", "visit_mut"), ("fold", "fold")):
        if sf in syn_base:
            continue
        enabling = [f for f, l in imp_feats.items() if ("syn/" + sf) in l]
        impl.syn_features[modname] = f_any([var(f) for f in enabling])
        dep_table["syn/" + sf] = enabling
    dep_table["syn/extra-traits"] = [f for f, l in imp_feats.items() if "syn/extra-traits" in l]
    facade.optional_deps = {}
    facade.syn_features = {}

    Analyzer(impl).run()
    Analyzer(facade).run()

    # the derive table of the impl crate (from the expanded create_derive! invocations)
    derives = []
    for name, ds in impl.modules[()].defs.items():
        for d in ds:
            if d.kind == "derive":
                fv = f_vars(d.guard)
                if len(fv) != 1 or d.guard != var(fv[0]):
                    raise TranslatorError("derive %s is exported under a non-atomic guard %s" % (name, f_text(d.guard)))
                derives.append((name, fv[0], d.line))
    derives.sort(key=lambda x: x[2])
    derive_names = set(d[0] for d in derives)

    notes = []
    pairs = []
    r_impl = Resolver(impl, {"derive_more": facade}, repo)
    r_fac = Resolver(facade, {"derive_more_impl": impl}, repo)
    for site in impl.sites:
        if site["ctx"] == "template":
            resolve_template_site(site, r_impl, r_fac, pairs, notes)
        else:
            r_impl.resolve_site(site)
    for site in facade.sites:
        if site["ctx"] == "template":
            raise TranslatorError("template in the facade crate")
        r_fac.resolve_site(site)
    pairs = r_impl.pairs + r_fac.pairs + pairs

    # trait re-export pairs: if the facade re-exports the trait T of derive D at all (type namespace of
    # derive_more::with_trait::T), it must do so whenever feature(D) is on - this is what the interpolated
    # template paths `derive_more::with_trait::#trait_ident` (utils.rs State) rely on
    trait_exports = []
    trait_guards = []
    for (dname, feat, line) in derives:
        ch = r_fac.chain(["with_trait"], dname, "t")
        if ch:
            trait_exports.append(dname)
            trait_guards.append({"trait": dname, "feature": feat, "guard": f_any([x[0] for x in ch])})
            pairs.append({"use": var(feat), "def": f_any([x[0] for x in ch]),
                          "what": "trait derive_more::with_trait::" + dname,
                          "file": "impl/src/lib.rs", "line": line, "def_where": "; ".join(x[1] for x in ch)[:200],
                          "crate": "derive_more", "ctx": "trait-export"})

    # trait impls of the facade's own types: wherever the type is compiled in (and the cfgs written on the impl itself
    # hold), the impl must be compiled in - an impl sitting in a module that is gated more narrowly than the type
    # silently drops the impl for some feature sets
    def type_defs(name):
        out = []
        for mp, m in facade.modules.items():
            for d in m.defs.get(name, []):
                if d.kind in ("struct", "enum", "union"):
                    out.append(d)
        return out
    for im in facade.impls:
        tds = type_defs(im["type"])
        if not tds:
            continue
        tg = f_any([d.guard for d in tds])
        pairs.append({"use": f_all([tg, im["own"]]), "def": im["guard"],
                      "what": "impl %s for %s" % (im["trait"], im["type"]), "file": os.path.relpath(im["file"], repo),
                      "line": im["line"], "def_where": "%s:%d" % (os.path.relpath(im["file"], repo), im["line"]),
                      "crate": "derive_more", "ctx": "impl", "type": im["type"], "trait": im["trait"]})

    # the public helper types of the facade (root and __private): name, definition guard, number of type parameters
    surface = []
    for place in ([], ["__private"]):
        m = facade.modules.get(tuple(place))
        for name, ds in sorted(m.defs.items()):
            if not any(d.vis == "pub" for d in ds):
                continue
            tds = type_defs(name)
            if not tds:
                continue
            src_line = open(tds[0].file).read().split("\n")[tds[0].line - 1:tds[0].line + 3]
            mm = re.search(r"(?:struct|enum|union)\s+" + re.escape(name) + r"\s*(<[^>{(;]*>)?", " ".join(src_line))
            params = []
            if mm and mm.group(1):
                params = [x.strip() for x in mm.group(1)[1:-1].split(",") if x.strip()]
            surface.append({"path": "::".join(["derive_more"] + place + [name]), "name": name,
                            "guard": f_any([x[0] for x in r_fac.chain(place, name, "t")]),
                            "type_params": len([x for x in params if not x.startswith("'") and not x.startswith("const ")]),
                            "lifetimes": len([x for x in params if x.startswith("'")])})

    # derive exports of the facade: macro-namespace definitions of each derive name at the three public places
    exports = []
    for place in ([], ["derive"], ["with_trait"]):
        for (dname, feat, line) in derives:
            ch = r_fac.chain(place, dname, "m")
            exports.append({"place": "::".join(["derive_more"] + place), "derive": dname, "feature": feat,
                            "guard": f_any([x[0] for x in ch])})

    # helper items of the facade that templates name: exported only if some using feature is on
    helper_uses = {}
    for p in pairs:
        if p["ctx"] == "template" and p["what"].count("::") >= 1 and not p["what"].endswith("::core") \
                and p["what"] not in ("derive_more::__private", "derive_more::with_trait"):
            helper_uses.setdefault(p["what"], {"def": p["def"], "uses": []})["uses"].append(p["use"])
    helpers = [{"item": k, "def": v["def"], "uses": f_any(v["uses"])} for k, v in sorted(helper_uses.items())
               if not k.startswith("derive_more::with_trait::")]

    # cfg-alternative definitions: the same name defined more than once in one module (two `mod x`, two items, two
    # explicit `use .. as x` of different targets): their guards must be pairwise exclusive (else E0428 / E0252)
    alternatives = []
    for cr in (impl, facade):
        for mp, m in sorted(cr.modules.items()):
            for name, ds in sorted(m.defs.items()):
                if name == "_":
                    continue
                groups = {}
                for d in ds:
                    if d.kind == "use":
                        groups.setdefault("use", {}).setdefault(tuple(d.target or ()), []).append(d)
                    else:
                        groups.setdefault("mod" if d.kind == "mod" else "item:" + d.ns, {}).setdefault((d.file, d.line), []).append(d)
                for gk, alts in groups.items():
                    if len(alts) < 2:
                        continue
                    gl = [f_any([d.guard for d in dl]) for _, dl in sorted(alts.items(), key=str)]
                    # function-local `use` of the same name in different functions are different scopes: only
                    # module-level items / modules / module-level uses are alternatives
                    if gk == "use" and all(f_counterexample(a, b) is None and f_counterexample(b, a) is None
                                           for a in gl for b in gl):
                        continue
                    alternatives.append({"crate": cr.name, "module": "::".join(("crate",) + mp), "name": name, "kind": gk,
                                         "guards": gl})

    # `std::` paths of the no_std-capable facade: each use guard must force `std`
    std_uses = [p["use"] for p in pairs if p["what"].startswith("extern std")]
    std_uses = list(dict.fromkeys(std_uses))

    # `#[doc = include_str!(concat!("../doc/", $feature, ".md"))]` of create_derive!: the file must exist
    doc_files = []
    for f_ in sorted(set(d[1] for d in derives)):
        doc_files.append((f_, os.path.exists(os.path.join(repo, "impl", "doc", f_ + ".md"))))

    # classify pairs
    uniq = {}
    for p in pairs:
        key = (p["use"], p["def"])
        u = uniq.setdefault(key, {"use": p["use"], "def": p["def"], "sites": []})
        u["sites"].append(p)
    ok_pairs, exceptions, trivial = [], [], 0
    for key, u in uniq.items():
        if u["def"] == TRUE:
            trivial += len(u["sites"])
            continue
        cex = f_counterexample(u["use"], u["def"])
        if cex is None:
            ok_pairs.append(u)
        else:
            u["witness"] = sorted(k for k, b in cex.items() if b)
            exceptions.append(u)

    variables = []
    for u in ok_pairs + exceptions:
        f_vars(u["def"], f_vars(u["use"], variables))
    for e in exports:
        f_vars(e["guard"], variables)
        if e["feature"] not in variables:
            variables.append(e["feature"])
    for h in helpers:
        f_vars(h["uses"], f_vars(h["def"], variables))
    for tgd in trait_guards:
        f_vars(tgd["guard"], variables)
    for al in alternatives:
        for g_ in al["guards"]:
            f_vars(g_, variables)
    for g_ in std_uses:
        f_vars(g_, variables)
    derive_feats = [f for f in fac_feats if f not in DERIVE_FEATURE_EXCLUDE]
    for f in derive_feats + ["std"]:
        if f not in variables:
            variables.append(f)
    variables = sorted(variables)

    stats = {"impl": impl.stats, "facade": facade.stats,
             "sites_impl": len(impl.sites), "sites_facade": len(facade.sites),
             "ignored_paths": r_impl.ignored + r_fac.ignored,
             "pairs_total": len(pairs), "pairs_trivial_def_true": trivial,
             "pairs_distinct": len(ok_pairs) + len(exceptions), "exceptions": len(exceptions),
             "variables": len(variables)}
    # independent grep-level count of cfg attributes (fail closed)
    grep_cfg = 0
    for c in (impl, facade):
        for d, _, names in os.walk(c.root_dir):
            for nme in names:
                if nme.endswith(".rs"):
                    src = open(os.path.join(d, nme)).read()
                    src = re.sub(r"//[^\n]*", "", src)
                    grep_cfg += len(re.findall(r"#\[cfg\(", src))
    seen_cfg = impl.stats["cfg_attrs"] + facade.stats["cfg_attrs"]
    grep_cfgm = 0
    for c_ in (impl, facade):
        for d_, _, names_ in os.walk(c_.root_dir):
            for nme in names_:
                if nme.endswith(".rs"):
                    src_ = re.sub(r"//[^\n]*", "", open(os.path.join(d_, nme)).read())
                    grep_cfgm += len(re.findall(r"\bcfg!\s*\(", src_))
    seen_cfgm = len(impl.cfg_macros) + len(facade.cfg_macros)
    stats["cfg_macro_calls"] = seen_cfgm
    if seen_cfgm > grep_cfgm or (grep_cfgm and not seen_cfgm):
        raise TranslatorError("cfg!(..) calls: extractor %d vs regex count %d" % (seen_cfgm, grep_cfgm))
    stats["grep_cfg_attrs"] = grep_cfg
    stats["seen_cfg_attrs"] = seen_cfg
    if grep_cfg != seen_cfg:
        raise TranslatorError("the extractor saw %d #[cfg(..)] attributes, a regex-level count finds %d" % (seen_cfg, grep_cfg))
    return {"variables": variables, "ok_pairs": ok_pairs, "exceptions": exceptions, "exports": exports,
            "helpers": helpers, "derives": derives, "facade_features": fac_feats, "impl_features": imp_feats,
            "dep_table": dep_table, "trait_exports": trait_exports, "surface": surface,
            "cfg_macros": [{"file": os.path.relpath(m["file"], repo), "line": m["line"], "pred": m["pred"],
                            "in_template": m["in_template"]} for cr in (impl, facade) for m in cr.cfg_macros],
            "trait_guards": trait_guards, "alternatives": alternatives, "std_uses": std_uses, "doc_files": doc_files,
            "impls": [{"trait": i["trait"], "type": i["type"], "guard": i["guard"]} for i in facade.impls], "notes": notes, "stats": stats, "derive_features": derive_feats,
            "facade_tests": [(v.get("name"), v.get("path"), v.get("required-features", []))
                             for k, v in fac_m.items() if k.startswith("test#")],
            "no_std_pred": facade.no_std_pred}


# ------------------------------------------------------------------ rendering

def coq_string(s):
    return '"' + s.replace('"', '""') + '"'


def coq_formula(f, index):
    k = f[0]
    if k == "var":
        return "FVar %d" % index[f[1]]
    if k == "true":
        return "FTrue"
    if k == "not":
        return "FNot (%s)" % coq_formula(f[1], index)
    return "%s [%s]" % ("FAny" if k == "any" else "FAll", "; ".join(coq_formula(g, index) for g in f[1]))


def render(x):
    index = {v: i for i, v in enumerate(x["variables"])}
    L_ = []
    L_.append("(** GENERATED by tools/lib/c20_cfg.py from /repo/Cargo.toml, /repo/impl/Cargo.toml, /repo/impl/src/**,")
    L_.append("    /repo/src/** (cfg guards of definitions and of their use sites).  Do not edit. *)")
    L_.append("From Coq Require Import List NArith String.")
    L_.append("From Verif Require Import C20.Model.")
    L_.append("Import ListNotations.")
    L_.append("Open Scope N_scope.")
    L_.append("Open Scope string_scope.")
    L_.append("")
    L_.append("Definition cfg_vars : list (N * string) :=")
    L_.append("  [ " + ";\n    ".join("(%d, %s)" % (i, coq_string(v)) for v, i in sorted(index.items(), key=lambda kv: kv[1])) + " ].")
    L_.append("")

    def pairs_def(name, us):
        L_.append("Definition %s : list (formula * formula) :=" % name)
        rows = []
        for u in us:
            s0 = u["sites"][0]
            cm = "(* %d site(s), e.g. %s:%d uses %s [%s] *)" % (len(u["sites"]), s0["file"], s0["line"],
                                                               s0["what"].replace("*)", "* )"), s0["ctx"])
            rows.append("%s\n    (%s,\n     %s)" % (cm, coq_formula(u["use"], index), coq_formula(u["def"], index)))
        L_.append("  [ " + ";\n    ".join(rows) + " ].")
        L_.append("")

    # ALL pairs, including any the translator's own truth table refutes (x["exceptions"]): a refuted pair breaks
    # the proof obligation C20_defined_where_used itself
    pairs_def("cfg_pairs", x["ok_pairs"] + x["exceptions"])
    L_.append("(* derive macro exports of the facade: (place/derive label, export guard, feature variable) *)")
    L_.append("Definition derive_exports : list (string * formula * N) :=")
    L_.append("  [ " + ";\n    ".join("(%s, %s, %d)" % (coq_string(e["place"] + "::" + e["derive"]),
                                                         coq_formula(e["guard"], index), index[e["feature"]])
                                     for e in x["exports"]) + " ].")
    L_.append("")
    L_.append("(* helper items named by templates: (item, definition guard, disjunction of the using guards) *)")
    L_.append("Definition helper_exports : list (string * formula * formula) :=")
    L_.append("  [ " + ";\n    ".join("(%s, %s, %s)" % (coq_string(h["item"]), coq_formula(h["def"], index),
                                                         coq_formula(h["uses"], index)) for h in x["helpers"]) + " ].")
    L_.append("")

    L_.append("(* re-exported traits (type namespace of derive_more::with_trait::T): (trait, export guard, feature variable) *)")
    L_.append("Definition trait_exports : list (string * formula * N) :=")
    L_.append("  [ " + ";\n    ".join("(%s, %s, %d)" % (coq_string(t["trait"]), coq_formula(t["guard"], index), index[t["feature"]])
                                     for t in x["trait_guards"]) + " ].")
    L_.append("")
    L_.append("(* names defined more than once in one module (cfg alternatives): (label, guards of the alternatives) *)")
    L_.append("Definition cfg_alternatives : list (string * list formula) :=")
    L_.append("  [ " + ";\n    ".join("(%s, [%s])" % (coq_string("%s %s::%s (%s)" % (a["crate"], a["module"], a["name"], a["kind"])),
                                                       "; ".join(coq_formula(g, index) for g in a["guards"]))
                                     for a in x["alternatives"]) + " ].")
    L_.append("")
    L_.append("(* guards of the code of the facade that names `std::..` *)")
    L_.append("Definition std_use_guards : list formula :=")
    L_.append("  [ " + ";\n    ".join(coq_formula(g, index) for g in x["std_uses"]) + " ].")
    L_.append("Definition std_var : N := %d." % index["std"])
    L_.append("")
    L_.append("(* `cfg!(..)` calls in expressions of both crates: (file: predicate, line) *)")
    L_.append("Definition cfg_macro_sites : list (string * N) :=")
    L_.append("  [ " + "; ".join("(%s, %d)" % (coq_string("%s: cfg!(%s)" % (m["file"], m["pred"].replace('"', "'"))), m["line"])
                                 for m in x["cfg_macros"]) + " ].")
    L_.append("")
    L_.append("(* impl/doc/<feature>.md, included by create_derive! under that feature: (feature, file exists) *)")
    L_.append("Definition doc_files : list (string * bool) :=")
    L_.append("  [ " + "; ".join("(%s, %s)" % (coq_string(f), "true" if e else "false") for f, e in x["doc_files"]) + " ].")
    L_.append("")

    def feats(name, d):
        L_.append("Definition %s : list (string * list string) :=" % name)
        L_.append("  [ " + ";\n    ".join("(%s, [%s])" % (coq_string(k), "; ".join(coq_string(s) for s in v))
                                         for k, v in d.items()) + " ].")
        L_.append("")
    feats("facade_features", x["facade_features"])
    feats("impl_features", x["impl_features"])
    L_.append("Definition derive_feature_names : list string :=")
    L_.append("  [ " + "; ".join(coq_string(f) for f in sorted(set(d[1] for d in x["derives"]))) + " ].")
    L_.append("")
    return "\n".join(L_)


def generate(repo=None):
    x = extract(repo)
    txt = render(x)
    d = os.path.join(common.COQ, "theories", "Gen")
    os.makedirs(d, exist_ok=True)
    p = os.path.join(d, "CfgFacts.v")
    old = open(p).read() if os.path.exists(p) else None
    if old != txt:
        with open(p, "w") as fh:
            fh.write(txt)
    return x


if __name__ == "__main__":
    import sys
    x = extract(sys.argv[1] if len(sys.argv) > 1 else None)
    print(x["stats"])
    print("derives:", len(x["derives"]))
    for u in x["exceptions"]:
        print("EXCEPTION use=%s def=%s witness=%s" % (f_text(u["use"]), f_text(u["def"]), u["witness"]))
        for s in u["sites"][:6]:
            print("    %s:%d %s (%s) defined at %s" % (s["file"], s["line"], s["what"], s["ctx"], s["def_where"]))
    if "-v" in sys.argv:
        for u in x["ok_pairs"]:
            s = u["sites"][0]
            print("ok  use=%s def=%s   [%d sites] %s:%d %s" % (f_text(u["use"]), f_text(u["def"]), len(u["sites"]),
                                                             s["file"], s["line"], s["what"]))
        for e in x["exports"]:
            print("export %s::%s under %s" % (e["place"], e["derive"], f_text(e["guard"])))
        for h in x["helpers"]:
            print("helper %s def=%s uses=%s" % (h["item"], f_text(h["def"]), f_text(h["uses"])))
        for n_ in x["notes"]:
            print("note", n_)
