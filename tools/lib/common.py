"""Shared machinery for the per-property checks (see DESIGN.md section 0.2).

Everything a check derives from /repo (harness binaries, generated crates, Gen/*.v) is rebuilt
from the working tree on every run; cargo's fingerprinting keeps that incremental.
"""
import fcntl
import hashlib
import json
import os
import random
import re
import shutil
import subprocess
import sys
import time

VERIF = os.path.dirname(os.path.dirname(os.path.dirname(os.path.abspath(__file__))))
REPO = os.environ.get("VERIF_REPO", "/repo")
BUILD = os.environ.get("VERIF_BUILD_DIR", os.path.join(VERIF, ".build"))
COQ = os.path.join(VERIF, "coq")
SCRATCH = os.environ.get("VERIF_SCRATCH", "/var/tmp/verif-scratch")
NCPU = 16

CARGO_ENV = dict(os.environ, CARGO_NET_OFFLINE="true", VERIF_REPO=REPO)
# the subject toolchain, whatever rust-toolchain files say
CARGO_ENV.pop("RUSTUP_TOOLCHAIN", None)


def sh(cmd, timeout=1200, env=None, cwd=None, input=None):
    """Run a command in its own process group; returns (rc, stdout+stderr). rc=124 on timeout, in which case the
    whole group is killed (cargo's rustc children would otherwise live on)."""
    import signal
    p = subprocess.Popen(cmd, shell=isinstance(cmd, str), cwd=cwd, env=env,
                         stdin=subprocess.PIPE if input is not None else None,
                         stdout=subprocess.PIPE, stderr=subprocess.STDOUT, text=True, errors="replace",
                         start_new_session=True)
    try:
        out, _ = p.communicate(input=input, timeout=timeout)
        return p.returncode, out
    except subprocess.TimeoutExpired:
        try:
            os.killpg(p.pid, signal.SIGKILL)
        except OSError:
            pass
        try:
            out, _ = p.communicate(timeout=10)
        except Exception:
            out = ""
        return 124, (out or "") + "\n[timeout after %ss]" % timeout
    except BaseException:
        try:
            os.killpg(p.pid, signal.SIGKILL)
        except OSError:
            pass
        raise


class Lock:
    def __init__(self, name):
        os.makedirs(BUILD, exist_ok=True)
        self.path = os.path.join(BUILD, name + ".lock")

    def __enter__(self):
        self.f = open(self.path, "w")
        fcntl.flock(self.f, fcntl.LOCK_EX)
        return self

    def __exit__(self, *a):
        fcntl.flock(self.f, fcntl.LOCK_UN)
        self.f.close()


# ------------------------------------------------------------------ known findings

def load_known():
    p = os.path.join(VERIF, "KNOWN_FINDINGS.json")
    if not os.path.exists(p):
        return {"findings": [], "fixed": []}
    return json.load(open(p))


# ------------------------------------------------------------------ the check object

class SafeRandom(random.Random):
    """the checks' only PRNG; `sample` never asks for more than the population holds (a data-dependent pool that came
    out smaller than the cap under some seed must not crash the check)"""

    def sample(self, population, k, **kw):
        population = list(population) if not isinstance(population, (list, tuple, range, str)) else population
        return super().sample(population, min(k, len(population)), **kw)


class Check:
    """Collects coverage, violations and evidence for one run of one property."""

    def __init__(self, pid, tier, seed, level="proof"):
        self.pid = pid
        self.tier = tier
        self.seed = seed
        self.level = level
        self.rng = SafeRandom(seed)
        self.t0 = time.time()
        self.violations = []          # (class_key, replay_path, text, no_input)
        self.known_hits = {}          # finding key -> text
        self.cov = {"evaluations": 0, "distinct_nontrivial": 0, "samples": [],
                    "traces_validated_against_impl": 0}
        self.assumptions = []
        self.notes = []
        self._distinct = set()
        self.known = [f for f in load_known().get("findings", []) if f.get("property") == pid]
        self.hist = {}
        self._vclass = {}

    # -- coverage bookkeeping
    def count(self, case_key, nontrivial=True, n=1):
        self.cov["evaluations"] += n
        if nontrivial:
            h = hashlib.sha1(repr(case_key).encode()).digest()[:8]
            self._distinct.add(h)

    def bump(self, bucket, n=1):
        self.hist[bucket] = self.hist.get(bucket, 0) + n

    def sample(self, s, limit=12):
        if len(self.cov["samples"]) < limit:
            self.cov["samples"].append(s)

    def log(self, msg):
        print("[%s %6.1fs] %s" % (self.pid, time.time() - self.t0, msg), flush=True)

    # -- violations
    def violation(self, class_key, replay, text, no_input=False):
        """Report a failing case. `class_key` identifies the *class* of input (used to match
        KNOWN_FINDINGS.json entries: an entry matches when its `key` equals class_key)."""
        # a broken correspondence / proof obligation is not by itself a failing input of the property
        if class_key.startswith(("tie", "proof", "coq-", "coqchk")) or "unreadable" in class_key:
            no_input = True
        for f in self.known:
            if f.get("key") == class_key:
                if class_key not in self.known_hits:
                    self.known_hits[class_key] = f.get("what", text)
                return False
        rdir = os.path.join(VERIF, "replays", self.pid)
        os.makedirs(rdir, exist_ok=True)
        if self._vclass.get(class_key, 0) >= 3:       # keep at most 3 replay files per class
            self._vclass[class_key] += 1
            return True
        blob = json.dumps(replay, sort_keys=True, default=str)
        path = os.path.join(rdir, hashlib.sha1(blob.encode()).hexdigest()[:12] + ".json")
        with open(path, "w") as fh:
            json.dump({"property": self.pid, "class": class_key, "what": text, "seed": self.seed,
                       "tier": self.tier, "no_failing_input_found": no_input, "replay": replay},
                      fh, indent=1, default=str)
        self._vclass[class_key] = self._vclass.get(class_key, 0) + 1
        if self._vclass[class_key] <= 3:
            self.violations.append((class_key, path, text, no_input))
        return True

    # -- finishing
    def finish(self, proof=None, rule="", trusted=None, extra=None):
        cov = self.cov
        cov["distinct_nontrivial"] = len(self._distinct)
        cov["rule"] = rule
        if self.hist:
            cov["distribution"] = self.hist
        if proof is not None:
            cov["obligations"] = proof["obligations"]
            cov["discharged"] = proof["discharged"]
            cov["checker_cmd"] = proof["checker_cmd"]
            cov["theorems"] = proof.get("theorems", [])
            cov["print_assumptions"] = proof.get("assumptions", {})
        cov["trusted_base"] = trusted or []
        if extra:
            cov.update(extra)
        if self.notes:
            cov["notes"] = self.notes
        # one line per distinct violation class (at most 10 lines)
        seen = set()
        lines = []
        for (ck, path, text, no_input) in self.violations:
            if ck in seen:
                continue
            seen.add(ck)
            lines.append("VIOLATION property=%s replay=%s%s" %
                         (self.pid, path, " no-failing-input-found" if no_input else ""))
            print("  -> %s: %s" % (ck, text[:400]))
        for k, what in self.known_hits.items():
            print("KNOWN-FINDING: property=%s %s" % (self.pid, what))
        cov["known_findings_hit"] = sorted(self.known_hits)
        if self._vclass:
            cov["violation_classes"] = self._vclass
        ev = {
            "property_id": self.pid,
            "tier": self.tier,
            "seed": self.seed,
            "level": self.level,
            "coverage": cov,
            "assumptions": self.assumptions,
            "wall_s": round(time.time() - self.t0, 2),
            "violations": len(seen),
        }
        os.makedirs(os.path.join(VERIF, "evidence"), exist_ok=True)
        with open(os.path.join(VERIF, "evidence", self.pid + ".json"), "w") as fh:
            json.dump(ev, fh, indent=1, default=str)
        for l in lines[:10]:
            print(l)
        print("[%s] %s: evaluations=%d distinct_nontrivial=%d violations=%d known=%d wall=%.1fs" % (
            self.pid, "FAIL" if lines else "ok", cov["evaluations"], cov["distinct_nontrivial"],
            len(seen), len(self.known_hits), time.time() - self.t0), flush=True)
        return 1 if lines else 0


# ------------------------------------------------------------------ in-process harness

def build_inproc():
    """(Re)build the in-process harness against /repo's current working tree."""
    with Lock("cargo-inproc"):
        env = dict(CARGO_ENV, CARGO_TARGET_DIR=os.path.join(BUILD, "target"))
        d = os.path.join(VERIF, "harness", "inproc")
        rc, out = sh(["cargo", "build", "--offline", "--quiet"], cwd=d, env=env, timeout=900)
        if rc != 0:
            raise BuildError("inproc harness does not build against %s:\n%s" % (REPO, out[-4000:]))
    return os.path.join(BUILD, "target", "debug", "dm_inproc")


class BuildError(Exception):
    pass


def _run_batch(binary, reqs, env=None, timeout=600):
    data = "".join(json.dumps(r) + "\n" for r in reqs)
    try:
        p = subprocess.run([binary], input=data, stdout=subprocess.PIPE, stderr=subprocess.PIPE,
                           text=True, timeout=timeout, env=env)
        out, rc, err = p.stdout, p.returncode, p.stderr
    except subprocess.TimeoutExpired as e:
        out = e.stdout or ""
        if isinstance(out, bytes):
            out = out.decode("utf-8", "replace")
        rc, err = 124, "timeout"
    resps = []
    for l in out.split("\n"):        # not splitlines(): U+2028/U+0085 inside a JSON string are not record separators
        if not l:
            continue
        try:
            resps.append(json.loads(l))
        except Exception:
            break
    return resps, rc, err


def run_jsonl(binary, reqs, env=None, timeout=600, jobs=NCPU, chunk=None):
    """Run requests through a JSON-lines binary, in parallel chunks, surviving crashes/hangs:
    a request that kills or hangs the process yields {"crash": ...} and the batch resumes after it."""
    from concurrent.futures import ThreadPoolExecutor
    n = len(reqs)
    if n == 0:
        return []
    if chunk is None:
        chunk = max(1, min(2000, (n + jobs - 1) // jobs))
    chunks = [(i, reqs[i:i + chunk]) for i in range(0, n, chunk)]

    def work(item):
        start, rs = item
        res = []
        pos = 0
        while pos < len(rs):
            got, rc, err = _run_batch(binary, rs[pos:], env=env, timeout=timeout)
            res.extend(got)
            pos += len(got)
            if pos < len(rs) and (rc != 0 or len(got) == 0):
                res.append({"crash": {"rc": rc, "stderr": (err or "")[-500:]}})
                pos += 1
        return start, res

    out = [None] * n
    with ThreadPoolExecutor(max_workers=jobs) as ex:
        for start, res in ex.map(work, chunks):
            out[start:start + len(res)] = res
    return out


def build_stdfmt():
    with Lock("cargo-stdfmt"):
        env = dict(CARGO_ENV, CARGO_TARGET_DIR=os.path.join(BUILD, "target-nightly"))
        d = os.path.join(VERIF, "harness", "stdfmt")
        rc, out = sh(["cargo", "+nightly", "build", "--offline", "--quiet"], cwd=d, env=env, timeout=900)
        if rc != 0:
            raise BuildError("stdfmt oracle does not build:\n%s" % out[-3000:])
    rc, sysroot = sh(["rustc", "+nightly", "--print", "sysroot"], env=CARGO_ENV)
    env = dict(os.environ, LD_LIBRARY_PATH=os.path.join(sysroot.strip(), "lib"))
    return os.path.join(BUILD, "target-nightly", "debug", "stdfmt_oracle"), env


# ------------------------------------------------------------------ Coq

FORBIDDEN = re.compile(r"\b(Admitted|admit|Axiom|Axioms|Parameter|Parameters|Conjecture|Conjectures|"
                       r"Hypothesis|Hypotheses|Variable|Variables|Admit Obligations|bypass_check|"
                       r"Unset Guard Checking|Unset Positivity Checking|Unset Universe Checking|"
                       r"type-in-type|impredicative-set)\b")


def strip_coq_comments(s):
    out = []
    depth = 0
    i = 0
    instr = False
    while i < len(s):
        if depth == 0 and s[i] == '"':
            instr = not instr
            out.append(s[i]); i += 1; continue
        if not instr and s.startswith("(*", i):
            depth += 1; i += 2; continue
        if not instr and depth > 0 and s.startswith("*)", i):
            depth -= 1; i += 2; continue
        if depth == 0:
            out.append(s[i])
        i += 1
    return "".join(out)


def scan_forbidden(files):
    """Admitted/admit/Axiom/Parameter/... anywhere; Variable/Hypothesis only outside sections."""
    bad = []
    for f in files:
        src = strip_coq_comments(open(f).read())
        depth = 0
        for ln, line in enumerate(src.splitlines(), 1):
            t = line.strip()
            if re.match(r"^(Section|Module)\s+\w+\s*\.", t) :
                depth += 1
            elif re.match(r"^End\s+\w+\s*\.", t):
                depth = max(0, depth - 1)
            for m in FORBIDDEN.finditer(line):
                w = m.group(1)
                if w in ("Variable", "Variables", "Hypothesis", "Hypotheses") and depth > 0:
                    continue
                bad.append("%s:%d: %s" % (os.path.relpath(f, VERIF), ln, w))
    return bad


def coq_project_files():
    fs = []
    for root, _, names in os.walk(os.path.join(COQ, "theories")):
        for n in names:
            if n.endswith(".v"):
                fs.append(os.path.join(root, n))
    return sorted(fs)


def coq_makefile():
    """Regenerate _CoqProject/Makefile from the files on disk (Gen/*.v may have been rewritten)."""
    files = [os.path.relpath(f, COQ) for f in coq_project_files()]
    proj = "-Q theories Verif\n-arg -w -arg -notation-overridden,-deprecated-hint-without-locality,-deprecated-instance-without-locality,-deprecated-syntactic-definition\n" + "\n".join(files) + "\n"
    p = os.path.join(COQ, "_CoqProject")
    old = open(p).read() if os.path.exists(p) else ""
    if old != proj or not os.path.exists(os.path.join(COQ, "Makefile")):
        open(p, "w").write(proj)
        rc, out = sh("coq_makefile -f _CoqProject -o Makefile", cwd=COQ)
        if rc != 0:
            raise BuildError(out)


def coq_make(targets=None, timeout=1500):
    """Full .vo build of the given targets (or everything). Returns (ok, output)."""
    with Lock("coq"):
        coq_makefile()
        cmd = ["make", "-j%d" % NCPU] + (targets or [])
        rc, out = sh(cmd, cwd=COQ, timeout=timeout)
    return rc == 0, out


THEOREM_RE = re.compile(r"^\s*(Theorem|Lemma|Corollary|Example|Fact|Proposition|Remark)\s+(\w+)", re.M)


def coq_proof_status(pid, extra_dirs=()):
    """Build theories/<pid>/*.vo (and deps), then compile Props.v by hand to capture
    `Print Assumptions`.  Returns dict(ok, obligations, discharged, theorems, assumptions, output,
    forbidden, failed_file)."""
    d = os.path.join(COQ, "theories", pid)
    files = sorted(os.path.join(d, n) for n in os.listdir(d) if n.endswith(".v"))
    dep_dirs = [os.path.join(COQ, "theories", x) for x in ("Base",) + tuple(extra_dirs)]
    all_files = list(files)
    for dd in dep_dirs:
        if os.path.isdir(dd):
            all_files += sorted(os.path.join(dd, n) for n in os.listdir(dd) if n.endswith(".v"))
    obligations = 0
    names = []
    for f in all_files:
        src = strip_coq_comments(open(f).read())
        for m in THEOREM_RE.finditer(src):
            obligations += 1
            if f.startswith(d) and os.path.basename(f) == "Props.v":
                names.append(m.group(2))
    forbidden = scan_forbidden(all_files)
    targets = [os.path.relpath(f, COQ)[:-2] + ".vo" for f in files]
    ok, out = coq_make(targets)
    res = {"ok": ok, "obligations": obligations, "discharged": 0, "theorems": names,
           "assumptions": {}, "output": out[-6000:], "forbidden": forbidden, "failed_file": None,
           "checker_cmd": "coq_makefile -f _CoqProject -o Makefile && make -j16 " + " ".join(targets) +
                          " && coqc -Q theories Verif theories/%s/Props.v (Print Assumptions)" % pid}
    if not ok:
        m = re.search(r'File "([^"]+)", line (\d+)', out)
        res["failed_file"] = (m.group(1) + ":" + m.group(2)) if m else "?"
        # obligations in files that did compile still count as discharged
        done = 0
        for f in all_files:
            if os.path.exists(f[:-2] + ".vo") and os.path.getmtime(f[:-2] + ".vo") >= os.path.getmtime(f):
                done += len(THEOREM_RE.findall(strip_coq_comments(open(f).read())))
        res["discharged"] = done
        return res
    res["discharged"] = obligations
    props = os.path.join(d, "Props.v")
    if os.path.exists(props):
        # recompile the leaf by hand to capture the Print Assumptions output
        with Lock("coq"):
            rc, pout = sh(["coqc", "-Q", "theories", "Verif", "-w",
                           "-notation-overridden,-deprecated-hint-without-locality,-deprecated-instance-without-locality,-deprecated-syntactic-definition",
                           os.path.relpath(props, COQ)], cwd=COQ, timeout=900)
        if rc != 0:
            res["ok"] = False
            res["output"] = pout[-6000:]
            res["failed_file"] = "theories/%s/Props.v" % pid
            return res
        res["assumptions"] = parse_assumptions(pout, names)
    return res


def parse_assumptions(out, names):
    """Split coqc output into one block per `Print Assumptions` (in order of appearance)."""
    blocks = []
    cur = None
    for line in out.splitlines():
        if line.startswith("Closed under the global context"):
            blocks.append("closed")
            cur = None
        elif line.startswith("Axioms:"):
            cur = []
            blocks.append(cur)
        elif cur is not None:
            if line.strip() == "":
                cur = None
            elif not line.startswith(" ") or ":" in line:
                m = re.match(r"^(\S+)\s*:", line)
                if m:
                    cur.append(m.group(1))
    res = {}
    for i, b in enumerate(blocks):
        key = names[i] if i < len(names) else "block%d" % i
        res[key] = b
    res["_count"] = len(blocks)
    return res


# the standard-library axioms a development may lean on (each must also be named in DESIGN.md);
# our target is the empty list everywhere.
AXIOM_ALLOW = set()


def check_proofs(chk, pid, extra_dirs=()):
    """Run the Coq side for property `pid`; report proof-obligation failures as violations with
    no failing input (the caller's differential run is the search for one).  Returns status."""
    st = coq_proof_status(pid, extra_dirs)
    if st["forbidden"]:
        chk.violation("coq-forbidden", {"forbidden": st["forbidden"]},
                      "forbidden declarations in the development: %s" % st["forbidden"][:5], no_input=True)
    if not st["ok"]:
        chk.proof_broken = True
        chk.proof_failure = {"failed": st["failed_file"], "output": st["output"][-3000:]}
        return st
    chk.proof_broken = False
    for name, ax in st["assumptions"].items():
        if name == "_count":
            continue
        if ax != "closed":
            extra = [a for a in ax if a not in AXIOM_ALLOW]
            if extra:
                chk.violation("coq-axioms", {"theorem": name, "axioms": ax},
                              "theorem %s depends on axioms %s" % (name, extra), no_input=True)
    if st["theorems"] and st["assumptions"].get("_count", 0) < len(st["theorems"]):
        chk.violation("coq-print-assumptions", {"theorems": st["theorems"], "blocks": st["assumptions"]},
                      "Props.v does not Print Assumptions for every theorem", no_input=True)
    return st


def coqchk_all(required=("Base", "C03"), timeout=3000):
    """independent re-check of the compiled property files with coqchk.
    The development is built with `make -k`; a property directory whose files do not build at this moment (its Gen/*.v
    facts were last regenerated from another tree, or its proofs are broken - its OWN check reports that) is left out
    and listed in `skipped`; the directories in `required` must build.  Returns (ok, axioms line, tail, skipped)."""
    with Lock("coq"):
        coq_makefile()
        rc, out = sh(["make", "-k", "-j%d" % NCPU], cwd=COQ, timeout=1500)
    failed_files = set(re.findall(r"\*\*\* \[[^\]]*?theories/(\w+/\w+)\.vo\] Error", out))
    failed = {f.split("/")[0] for f in failed_files}
    if "Gen" in failed:
        # a broken facts file: everything importing it is unreliable - keep only what cannot depend on it
        failed |= {d for d in os.listdir(os.path.join(COQ, "theories")) if d not in ("Base", "C03", "Gen")}
        failed.discard("Gen")
        if "Gen/XidTable" in failed_files:
            failed.add("C03")
    if rc != 0 and not failed:
        return False, "build failed", out[-1500:], []
    if failed & set(required):
        return False, "build failed", out[-1500:], sorted(failed)
    mods = []
    for root, _, names in os.walk(os.path.join(COQ, "theories")):
        for n in names:
            if n in ("Props.v", "UnicodeOk.v"):
                rel = os.path.relpath(os.path.join(root, n), os.path.join(COQ, "theories"))
                if rel.split("/")[0] in failed:
                    continue
                mods.append("Verif." + rel[:-2].replace("/", "."))
    with Lock("coq"):
        rc, out = sh(["coqchk", "-o", "-silent", "-Q", "theories", "Verif"] + sorted(mods), cwd=COQ, timeout=timeout)
    m = re.search(r"\* Axioms:\s*(.*?)\n\s*\n", out, re.S)
    ax = m.group(1).strip() if m else "?"
    return rc == 0 and ax == "<none>", ax, out[-1500:], sorted(failed)


# ---- evaluating model definitions inside Coq (cases.v + vm_compute)

def coq_eval(requires, exprs, preamble="", batch=400, timeout=900, jobs=NCPU, tag="cases"):
    """Evaluate Gallina expressions with vm_compute; returns a list of parsed terms (see
    parse_coq_term).  `requires` is a list like ["Verif.C03.DmParse"]."""
    from concurrent.futures import ThreadPoolExecutor
    if not exprs:
        return []
    os.makedirs(os.path.join(BUILD, "cases"), exist_ok=True)
    batches = [exprs[i:i + batch] for i in range(0, len(exprs), batch)]

    def work(args):
        k, es = args
        base = "%s_%d_%d" % (tag, os.getpid(), k)
        path = os.path.join(BUILD, "cases", base + ".v")
        with open(path, "w") as fh:
            fh.write("From Coq Require Import List NArith ZArith String.\nImport ListNotations.\n")
            for r in requires:
                fh.write("Require Import %s.\n" % r)
            fh.write("Set Printing Width 1000000.\nSet Printing Depth 1000000.\nUnset Printing Implicit Defensive.\nOpen Scope N_scope.\n")
            fh.write(preamble + "\n")
            for e in es:
                fh.write("Eval vm_compute in (%s).\n" % e)
        rc, out = sh(["coqc", "-noglob", "-Q", os.path.join(COQ, "theories"), "Verif", path],
                     cwd=os.path.join(BUILD, "cases"), timeout=timeout)
        for ext in (".v", ".vo", ".vok", ".vos", ".glob"):
            try:
                os.remove(os.path.join(BUILD, "cases", base + ext))
            except OSError:
                pass
        try:
            os.remove(os.path.join(BUILD, "cases", "." + base + ".aux"))
        except OSError:
            pass
        if rc != 0:
            raise BuildError("coqc failed on generated cases (%s):\n%s" % (path, out[-3000:]))
        terms = split_eval_output(out)
        if len(terms) != len(es):
            raise BuildError("expected %d results, got %d:\n%s" % (len(es), len(terms), out[-2000:]))
        return [parse_coq_term(t) for t in terms]

    res = []
    with ThreadPoolExecutor(max_workers=jobs) as ex:
        for r in ex.map(work, list(enumerate(batches))):
            res.extend(r)
    return res


def split_eval_output(out):
    """Each `Eval` prints `     = term` followed by `     : type`."""
    terms = []
    cur = None
    for line in out.splitlines():
        if line.startswith("     = "):
            if cur is not None:
                terms.append(cur)
            cur = line[7:]
        elif line.startswith("     : "):
            if cur is not None:
                terms.append(cur)
                cur = None
        elif cur is not None:
            cur += " " + line.strip()
    if cur is not None:
        terms.append(cur)
    return terms


def strip_implicit_args(s):
    """remove explicit-implicit annotations `(A:=...)` that Coq prints for non-inferable arguments"""
    while True:
        m = re.search(r"\(\w+:=", s)
        if not m:
            return s
        depth = 0
        i = m.start()
        j = i
        while j < len(s):
            if s[j] == "(":
                depth += 1
            elif s[j] == ")":
                depth -= 1
                if depth == 0:
                    break
            j += 1
        s = s[:i] + s[j + 1:]


_TOK = re.compile(r'\s*(\{\||\|\}|:=|[()\[\];,]|"(?:[^"]|"")*"|-?\d+|[A-Za-z_][A-Za-z0-9_\'.]*|%[A-Za-z_]+)')


def parse_coq_term(s):
    """Generic reader of Coq-printed closed terms: numbers -> int, lists -> list, tuples -> tuple,
    `C a b` -> ('C', a, b), bare constructor -> 'C', records -> dict, strings -> str."""
    toks = []
    pos = 0
    s = strip_implicit_args(s.strip())
    while pos < len(s):
        m = _TOK.match(s, pos)
        if not m:
            raise ValueError("cannot tokenise Coq term at %r" % s[pos:pos + 40])
        t = m.group(1)
        pos = m.end()
        if t.startswith("%"):
            continue
        toks.append(t)
    i = [0]

    def peek():
        return toks[i[0]] if i[0] < len(toks) else None

    def nxt():
        t = toks[i[0]]
        i[0] += 1
        return t

    def atom():
        t = nxt()
        if t == "(":
            items = [term()]
            while peek() == ",":
                nxt()
                items.append(term())
            assert nxt() == ")"
            return items[0] if len(items) == 1 else tuple(items)
        if t == "[":
            items = []
            if peek() == "]":
                nxt()
                return items
            items.append(term())
            while peek() == ";":
                nxt()
                items.append(term())
            assert nxt() == "]", toks[i[0] - 1]
            return items
        if t == "{|":
            d = {}
            while peek() != "|}":
                k = nxt()
                assert nxt() == ":="
                d[k] = term()
                if peek() == ";":
                    nxt()
            nxt()
            return d
        if t[0] == '"':
            return t[1:-1].replace('""', '"')
        if re.match(r"-?\d+$", t):
            return int(t)
        return t

    def term():
        head = atom()
        args = []
        while peek() is not None and peek() not in (")", "]", ";", ",", "|}", ":="):
            args.append(atom())
        if args:
            return (head,) + tuple(args)
        return head

    r = term()
    if i[0] != len(toks):
        raise ValueError("trailing tokens in Coq term: %r" % toks[i[0]:i[0] + 5])
    return r


def coq_str(s):
    """Python str -> Coq `list N` literal of code points."""
    return "[" + "; ".join(str(ord(c)) for c in s) + "]"


def py_str(l):
    return "".join(chr(c) for c in l)


# ------------------------------------------------------------------ generated crates (real macro, real rustc)

def scratch_dir(name):
    d = os.path.join(SCRATCH, name)
    if os.path.exists(d):
        shutil.rmtree(d, ignore_errors=True)
    os.makedirs(d, exist_ok=True)
    return d


def rt_target_dir():
    # builders working in parallel set VERIF_RT_TARGET to a private directory to avoid lock contention
    return os.environ.get("VERIF_RT_TARGET", os.path.join(BUILD, "target-rt"))


def repo_lock():
    """the workspace lock file (git-ignored in the repository, so a bare checkout lacks it): fall back to the copy kept
    in harness/ (same registry snapshot)"""
    p = os.path.join(REPO, "Cargo.lock")
    return p if os.path.exists(p) else os.path.join(VERIF, "harness", "repo.Cargo.lock")


def make_crate(name, main_rs, extra_files=None, features=("full",), edition="2021", deps_extra="", bin=True,
               default_features=True):
    """A throw-away crate depending on the real derive_more at /repo (the working tree)."""
    d = scratch_dir(name)
    os.makedirs(os.path.join(d, "src"))
    feats = ", ".join('"%s"' % f for f in features)
    with open(os.path.join(d, "Cargo.toml"), "w") as fh:
        fh.write("""[package]
name = "%s"
version = "0.0.0"
edition = "%s"
publish = false

[workspace]

[dependencies]
derive_more = { path = "%s", default-features = %s, features = [%s] }
%s
[profile.dev]
debug = false
opt-level = 0
incremental = false
""" % (name, edition, REPO, "true" if default_features else "false", feats, deps_extra))
    with open(os.path.join(d, "src", "main.rs" if bin else "lib.rs"), "w") as fh:
        fh.write(main_rs)
    for rel, content in (extra_files or {}).items():
        p = os.path.join(d, "src", rel)
        os.makedirs(os.path.dirname(p), exist_ok=True)
        with open(p, "w") as fh:
            fh.write(content)
    shutil.copy(repo_lock(), os.path.join(d, "Cargo.lock"))
    return d


def cargo(d, args, timeout=1500, env_extra=None, target_dir=None):
    env = dict(CARGO_ENV, CARGO_TARGET_DIR=target_dir or rt_target_dir())
    if env_extra:
        env.update(env_extra)
    with Lock("cargo-rt-" + hashlib.sha1((target_dir or "rt").encode()).hexdigest()[:6]):
        return sh(["cargo"] + args + ["--offline"], cwd=d, env=env, timeout=timeout)


def run_crate(d, name, timeout=900, args=()):
    rc, out = cargo(d, ["build", "--quiet"])
    if rc != 0:
        return rc, out, None
    binp = os.path.join(rt_target_dir(), "debug", name)
    p = subprocess.run([binp] + list(args), stdout=subprocess.PIPE, stderr=subprocess.PIPE, text=True,
                       timeout=timeout, errors="replace")
    return p.returncode, p.stderr, p.stdout


def cleanup_scratch(name):
    shutil.rmtree(os.path.join(SCRATCH, name), ignore_errors=True)


def main_entry(run):
    """Common CLI: check <ID> [--tier quick|thorough] [--replay path]."""
    import argparse
    ap = argparse.ArgumentParser()
    ap.add_argument("--tier", default=os.environ.get("VERIF_TIER", "quick"))
    ap.add_argument("--replay", default=None)
    a = ap.parse_args(sys.argv[2:])
    seed = int(os.environ.get("VERIF_SEED", "20260930"))
    return run(a.tier if a.tier in ("quick", "thorough") else "quick", seed, a.replay)
