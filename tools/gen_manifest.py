#!/usr/bin/env python3
"""Writes MANIFEST.json from the META dict of every tools/props/cXX.py (one source of truth)."""
import importlib, json, os, sys
HERE = os.path.dirname(os.path.abspath(__file__))
sys.path.insert(0, HERE)
VERIF = os.path.dirname(HERE)
props = [json.loads(l) for l in open(os.path.join(VERIF, "properties.jsonl"))]
checks, na = [], []
for p in props:
    pid = p["id"]
    path = os.path.join(HERE, "props", pid.lower() + ".py")
    meta = None
    ready = set(open(os.path.join(HERE, "READY")).read().split())
    if os.path.exists(path) and pid in ready:
        mod = importlib.import_module("props." + pid.lower())
        meta = getattr(mod, "META", None)
    if meta is None or meta.get("not_applicable"):
        na.append({"property_id": pid, "reason": (meta or {}).get("not_applicable", "check not built yet (work in progress; see DESIGN.md build order)")})
        continue
    checks.append({
        "property_id": pid,
        "quick_cmd": "./check %s --tier quick" % pid,
        "thorough_cmd": "./check %s --tier thorough" % pid,
        "evidence_file": "/verif/evidence/%s.json" % pid,
        "replay_cmd_template": "./check %s --replay {path}" % pid,
        "engine": "coq+differential",
        "level_claimed": {"category": meta["level"], "text": meta["text"], "design_ref": meta.get("design_ref", "DESIGN.md")},
        "level_note": meta["note"],
        "technique": meta["technique"],
    })
man = {
    "version": 1,
    "setup_cmd": "sh tools/setup.sh",
    "hooks": {
        "guard": "cargo feature `verif_hooks` of derive_more-impl (off by default, not part of `full`)",
        "enable": "the in-process harness (harness/inproc) compiles /repo/impl/src/*.rs via #[path] with its own feature `verif_hooks` on",
        "baseline_off_cmd": "python3 tools/baseline.py",
        "source_commits": ["089c1c2"],
        "add_only": True,
    },
    "engines": [
        {"name": "coq+differential", "path": "coq/ + tools/ + harness/",
         "serves_properties": [c["property_id"] for c in checks],
         "kind_free_text": "Coq 8.16.1 theorems over hand-written executable models (coq/theories/<ID>), models tied to /repo on every run by "
                           "differential correspondence (cases.v + vm_compute vs the real code through harness/inproc, harness/stdfmt and generated "
                           "crates using the real proc-macro) and by translators regenerating coq/theories/Gen/*.v from the source"},
    ],
    "checks": checks,
    "not_applicable": na,
    "notes": "See DESIGN.md. KNOWN_FINDINGS.json lists recorded genuine defects and the fix: commits made in /repo.",
}
json.dump(man, open(os.path.join(VERIF, "MANIFEST.json"), "w"), indent=1)
print("checks:", [c["property_id"] for c in checks], "not_applicable:", [n["property_id"] for n in na])
