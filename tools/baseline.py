#!/usr/bin/env python3
"""Runs the repository's pinned suite with the hook guard OFF and compares with /root/.vp/BASELINE.json
(the 562 stable tests).  Exit 0 iff every baseline test still passes."""
import json, os, subprocess, sys, xml.etree.ElementTree as ET
REPO = os.environ.get("VERIF_REPO", "/repo")
base = json.load(open("/root/.vp/BASELINE.json"))
want = set(base["stable_pass"])
env = dict(os.environ, CARGO_NET_OFFLINE="true")
junit = os.path.join(REPO, "target", "nextest", "pb", "junit.xml")
if os.path.exists(junit):
    os.remove(junit)
cmd = ["cargo", "nextest", "run", "--workspace", "--no-fail-fast", "--tool-config-file", "pb:/w/lib/nextest.toml",
       "--profile", "pb", "--test-threads", "8", "--offline"]
p = subprocess.run(cmd, cwd=REPO, env=env, stdout=subprocess.PIPE, stderr=subprocess.STDOUT, text=True)
passed, failed = set(), set()
if os.path.exists(junit):
    for tc in ET.parse(junit).getroot().iter("testcase"):
        tid = (tc.get("classname") or "") + "::" + (tc.get("name") or "")
        if tc.find("failure") is not None or tc.find("error") is not None:
            failed.add(tid)
        elif tc.find("skipped") is None:
            passed.add(tid)
else:
    print(p.stdout[-3000:])
    print("no junit output"); sys.exit(2)
missing = sorted(want - passed)
print("baseline tests: %d, passing now: %d, missing: %d, failed (incl. always_fail): %s" %
      (len(want), len(want & passed), len(missing), sorted(failed)[:5]))
for m in missing[:20]:
    print("  MISSING", m)
sys.exit(0 if not missing else 1)
