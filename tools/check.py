#!/usr/bin/env python3
"""Entry point of every registered check:  check.py <ID> [--tier quick|thorough] [--replay path]"""
import importlib
import os
import sys
import traceback

sys.path.insert(0, os.path.dirname(os.path.abspath(__file__)))
from lib import common  # noqa: E402


def main():
    if len(sys.argv) < 2:
        print("usage: check <ID> [--tier quick|thorough] [--replay path]")
        return 2
    pid = sys.argv[1].upper()
    mod = importlib.import_module("props." + pid.lower())
    try:
        return common.main_entry(mod.run)
    except Exception as e:
        # the framework itself could not be built against the current tree (BuildError), or a reader of the real
        # code's output met something it cannot read (any other exception): either way the tie is broken and the
        # property is no longer shown to hold - reported as a violation without a failing input, never as a crash
        import json, hashlib, time
        if not isinstance(e, common.BuildError):
            traceback.print_exc()
            e = common.BuildError("uncaught %s in the check (a reader of the tree's output could not cope): %s\n%s" % (
                type(e).__name__, e, traceback.format_exc()[-3000:]))
        rdir = os.path.join(common.VERIF, "replays", pid)
        os.makedirs(rdir, exist_ok=True)
        path = os.path.join(rdir, "build-" + hashlib.sha1(str(e).encode()).hexdigest()[:10] + ".json")
        json.dump({"property": pid, "what": "harness/model does not build against the current tree",
                   "detail": str(e)[-6000:]}, open(path, "w"), indent=1)
        print(str(e)[-3000:])
        tier = os.environ.get("VERIF_TIER", "quick")
        if "--tier" in sys.argv:
            tier = sys.argv[sys.argv.index("--tier") + 1]
        ev = {"property_id": pid, "tier": tier if tier in ("quick", "thorough") else "quick",
              "seed": int(os.environ.get("VERIF_SEED", "20260930")), "level": "other",
              "coverage": {"explanation": "nothing explored: the harness/model did not build against the current tree: " + str(e)[-500:]},
              "wall_s": 0.0, "violations": 1}
        os.makedirs(os.path.join(common.VERIF, "evidence"), exist_ok=True)
        json.dump(ev, open(os.path.join(common.VERIF, "evidence", pid + ".json"), "w"), indent=1)
        print("VIOLATION property=%s replay=%s no-failing-input-found" % (pid, path))
        return 1


if __name__ == "__main__":
    sys.exit(main())
