#!/bin/sh
# Offline setup: build the Coq development and the harness binaries from files on disk.
set -e
cd "$(dirname "$0")/.."
export CARGO_NET_OFFLINE=true
python3 - <<'PY'
import sys
sys.path.insert(0, "tools")
from lib import common, gen_xid
b = common.build_inproc()
gen_xid.generate(b)
try:
    common.build_stdfmt()
except Exception as e:
    print("stdfmt oracle build failed:", e)
ok, out = common.coq_make()
print(out[-2000:])
sys.exit(0 if ok else 1)
PY
