#!/bin/sh
# Offline setup: build the Coq development and the harness binaries from files on disk.
set -e
cd "$(dirname "$0")/.."
export CARGO_NET_OFFLINE=true
python3 - <<'PY'
import sys
sys.path.insert(0, "tools")
from lib import common, gen_xid
b = common.build_inproc()
gen_xid.generate(b)
try:
    common.build_stdfmt()
except Exception as e:
    print("stdfmt oracle build failed:", e)
# build everything that builds (-k): a property whose theories do not build is reported by its own check
common.coq_makefile()
rc, out = common.sh(["make", "-k", "-j16"], cwd=common.COQ, timeout=3000)
print(out[-2000:])
sys.exit(0)
PY
